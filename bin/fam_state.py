"""Package state and concurrency: C16 (Sessions.tla), C17 (Cache.tla)."""
import json
import os

import vlib
from vlib import Broken, log


def check_c16(ctx):
    vlib.build_worker(ctx)
    rep = vlib.Report(ctx)
    maxlen = 4 if ctx.tier == 'thorough' else 3
    hists = ctx.path('hists.ndjson')
    cfg = ('CONSTANTS\nMaxLen = %d\nOutFile = "%s"\nSPECIFICATION Spec\nINVARIANTS C16_PkgCache C16_NoLeftover\nPROPERTY C16_Stateless\n'
           % (maxlen, hists))
    vlib.model_check(ctx, 'Sessions', cfg, 'L%d' % maxlen, workers=8, timeout=2400, heap='8g')
    # each worker process replays its share of the histories one after the other: package state persists
    for of in vlib.run_worker(ctx, 'sessions', hists, ['-watchdog', '120s'], prefix='sess'):
        for l in open(of):
            o = json.loads(l)
            rep.evaluations += 1
            names = [s['want']['x'] for s in o['steps']]
            rep.count('c16:' + ('pass' if o['ok'] else 'fail'))
            if 'world' in [s['want']['k'] for s in o['steps']]:
                rep.nontrivial.add('/'.join(names))
            if not o['ok']:
                bad = next(s for s in o['steps'] if not s['ok'])
                rep.fail('c16', {'family': 'sessions', 'steps': [s['want'] for s in o['steps']]}, [],
                         'history %s: call %s - %s; wanted root=%s d1=%s d2=%s d3=%s, result shows root=%s d1=%s d2=%s d3=%s; loads=%s pkgcache=%s err=%s' % (
                             names, bad['want']['x'], bad['why'], bad['want']['root'], bad['want']['d1'], bad['want']['d2'], bad['want']['d3'],
                             bad['got']['root'], bad['got']['d1'], bad['got']['d2'], bad['got']['d3'], bad['loads'][:4], bad.get('pkgkeys'), bad['err'][:100]))
            if len(rep.samples) < 3 and names.count('d1') >= 1 and len(names) >= 3:
                rep.samples.append({'history': names, 'observed': [s['got'] for s in o['steps']]})
    return rep.finish(
        'model_checking',
        'Sessions.tla: machine over (world: document -> version, package cache, per-call cache clone); TLC checks C16_PkgCache, '
        'C16_NoLeftover and the action property C16_Stateless on every behaviour of <= %d steps over 9 calls (ExpandSpec on two roots '
        'that share one location, ExpandSchemaWithBasePath, ResolveRefWithBase, ExpandSchema against two in-memory roots that share '
        'the pseudo root, a call whose options have no RelativeBase, a schema that refers to whole built-in meta-schema documents, expansion '
        'of the built-in meta-schemas) and 3 world changes, and exports every such history with the '
        'expected version vector of each call. Each worker process replays its histories back to back (package state persists), '
        'all calls without a caller cache and with ONE options value per kind reused by every call of the process; per call: the result must show the current version of every document it reads and its '
        'own root, the caller\'s options are unchanged, the package cache holds exactly the two built-ins (verif accessor), and the '
        'built-in meta-schemas resolve without any loader call to their first-seen content. distinct_nontrivial = distinct '
        'histories containing a world change.' % maxlen,
        ['documents carry their version in a title, so the result reveals which version was read',
         'the Swagger 2.0 meta-schema (expensive) is expanded in every 16th history, the draft-04 one in every meta call'],
        exhaustive=True)


def replay_sessions(ctx, rec):
    vlib.build_worker(ctx)
    f = ctx.path('h.ndjson')
    open(f, 'w').write(json.dumps({'steps': rec['case']['steps']}) + '\n')
    bad = 0
    for of in vlib.run_worker(ctx, 'sessions', f, [], shards=1, prefix='replay'):
        for l in open(of):
            o = json.loads(l)
            print(json.dumps(o))
            bad += not o['ok']
    print('REPRODUCED' if bad else 'NOT-REPRODUCED')
    return 1 if bad else 0


CHECKS = {'C16': check_c16}
REPLAY = {'sessions': replay_sessions}


# ------------------------------------------------------------------ C17
def cache_cfg(procs, maxops, outfile):
    return ('CONSTANTS\nProcs = {%s}\nMaxOps = %d\nOutFile = "%s"\nSPECIFICATION Spec\n'
            'INVARIANTS NoRace OnceAtMostOnce Linearizable NoDeadlock\nPROPERTY Terminates\n'
            % (', '.join('"g%d"' % i for i in range(1, procs + 1)), maxops, outfile))


def check_c17(ctx):
    vlib.build_worker(ctx)
    race = vlib.build_worker(ctx, race=True)
    rep = vlib.Report(ctx)
    # 1. the lock protocol, exhaustively; its initial states are the programs replayed on real goroutines
    plans = [(3, 2, 3)] if ctx.tier == 'thorough' else [(3, 1, 12), (2, 2, 6)]
    for procs, maxops, rounds in plans:
        progs = ctx.path('progs_%d_%d.ndjson' % (procs, maxops))
        vlib.model_check(ctx, 'Cache', cache_cfg(procs, maxops, progs), 'G%d_ops%d' % (procs, maxops), workers=12, timeout=3000, heap='12g')
        obsfiles = vlib.run_worker(ctx, 'conc', progs, ['-rounds', str(rounds), '-mode', 'trace'], prefix='conc_%d_%d' % (procs, maxops))
        for o, v in vlib.run_oracle(ctx, 'CacheTrace', obsfiles):
            rep.evaluations += 1
            rep.count('c17lock:' + v['c17lock'])
            if sum(len(p) for p in o['prog'].values()) >= 2:
                rep.nontrivial.add((json.dumps(o['prog'], sort_keys=True), o['round']))
            if o.get('outcome') != 'ok':
                rep.fail('c17lock', {'family': 'conc', 'prog': o['prog'], 'outcome': o.get('outcome'), 'detail': o.get('detail')}, [],
                         'goroutines died / hung: %s %s' % (o.get('outcome'), o.get('detail', '')[:200]))
            elif v['c17lock'] == 'fail':
                rep.fail('c17lock', {'family': 'conc', 'prog': o['prog'], 'events': o['events'], 'at': v['at'], 'why': v['why']}, [],
                         'programs %s: event %d: %s; trace around: %s' % (o['prog'], v['at'], v['why'],
                                                                          [(e['g'], e['pt'], e['cache']) for e in o['events'][max(0, v['at'] - 4):v['at'] + 1]]))
            if len(rep.samples) < 2 and len(o['events']) > 12:
                rep.samples.append({'programs': o['prog'], 'linearisation_trace': [(e['g'], e['pt'], e['cache'], e['val']) for e in o['events']]})
    # 2. free-running stress of the public API under the race detector, gates off
    stress = ctx.path('stress.ndjson')
    combos = []
    n = 60 if ctx.tier == 'thorough' else 12
    for i in range(n):
        g = [2, 3, 4, 8, 16, 32][(ctx.seed + i) % 6]
        procs = [1, 2, 4, 8, 16][(ctx.seed + i * 7) % 5]
        combos.append({'g': g, 'rounds': [20, 60, 150][(ctx.seed + i) % 3], 'procs': procs})
    open(stress, 'w').write(''.join(json.dumps(c) + '\n' for c in combos))
    env_race = os.environ.get('GORACE')
    os.environ['GORACE'] = 'halt_on_error=1'
    try:
        outs = vlib.run_worker(ctx, 'conc', stress, ['-mode', 'stress', '-watchdog', '180s'], prefix='stress', binary=race, shards=4)
    finally:
        if env_race is None:
            del os.environ['GORACE']
        else:
            os.environ['GORACE'] = env_race
    obs = [(json.loads(l), of) for of in outs for l in open(of)]
    # a hang may be the machine's doing (the race detector slows everything down, other jobs compete): a case that did
    # not finish is run again, alone, before it counts; a race report or a wrong answer needs no confirmation
    slow = [o for o, of in obs if o['outcome'] in ('deadlock', 'timeout') and 'DATA RACE' not in o.get('detail', '')]
    if slow:
        cf = ctx.path('stress_confirm.ndjson')
        open(cf, 'w').write(''.join(o['line'].strip() + '\n' for o in slow[:3]))
        os.environ['GORACE'] = 'halt_on_error=1'
        try:
            again = vlib.run_worker(ctx, 'conc', cf, ['-mode', 'stress', '-watchdog', '400s'], prefix='stressc', binary=race, shards=1)
        finally:
            if env_race is None:
                del os.environ['GORACE']
            else:
                os.environ['GORACE'] = env_race
        still = [json.loads(l) for f in again for l in open(f)]
        nstill = sum(1 for o in still if o['outcome'] != 'ok')
        vlib.log('[confirm] %d stress cases did not finish; %d of %d fail again alone' % (len(slow), nstill, len(still)))
        if nstill == 0:
            obs = [(o, of) for o, of in obs if o not in slow]
            rep.counts['stress_cases_slow_but_confirmed_ok'] = len(slow)
    for o, of in obs:
        if True:
            rep.evaluations += 1
            rep.nontrivial.add(('stress', o['id'], of))
            if o['outcome'] == 'harness-error':
                raise Broken('stress harness: ' + o['detail'])
            if o['outcome'] != 'ok':
                kind = 'c17race' if 'DATA RACE' in o.get('detail', '') else 'c17deadlock'
                rep.count(kind + ':fail')
                rep.fail(kind, {'family': 'conc-stress', 'outcome': o['outcome'], 'detail': o['detail']}, [],
                         '%s under -race stress: %s' % (o['outcome'], o['detail'][-400:]))
            elif not o['seqok']:
                rep.count('c17seq:fail')
                rep.fail('c17seq', {'family': 'conc-stress', 'detail': o['detail']}, [], 'a concurrent call did not return its sequential answer: ' + o['detail'][:300])
            else:
                rep.count('c17stress:pass')
    return rep.finish(
        'model_checking',
        'Cache.tla: goroutines x programs over {Get, Set, ShallowClone, lazy Init} on one shared cache with lock acquisition, memory '
        'access and release as separate steps; TLC checks NoRace, OnceAtMostOnce, Linearizable, deadlock freedom and termination '
        'for every program assignment and interleaving within the tier\'s bound (G=3 x 1 op and G=2 x <=2 ops quick; G=3 x <=2 ops '
        'thorough) and exports the program assignments. Each is run on real goroutines sharing one simpleCache (verif accessor) '
        'with the gate hooks stamping events inside the critical sections with one global atomic counter and widening the '
        'windows (yield / 20 us sleep); CacheTrace.tla validates every linearisation trace against the same RWLock predicates '
        '(no writer inside together with anybody, initialiser at most once per process, no write to the package cache, every Get '
        'returns the latest value written in lock order). Second instrument: free-running stress of ExpandSpec, '
        'ExpandSchemaWithBasePath (own and shared cache), ResolveRefWithBase, json.Marshal and pointer look-ups on a shared '
        'read-only document under the Go race detector with varied goroutine counts / GOMAXPROCS; a race report, hang or an '
        'answer different from the sequential one is a violation.',
        ['schedules of the real goroutines are sampled (free-running with widened windows), the model is exhaustive',
         'the race detector observes only executed interleavings'])


def replay_conc(ctx, rec):
    vlib.build_worker(ctx)
    c = rec['case']
    if c['family'] != 'conc':
        print('stress findings are re-run by the check itself')
        return 2
    f = ctx.path('p.ndjson')
    open(f, 'w').write(json.dumps(c['prog']) + '\n')
    obsfiles = vlib.run_worker(ctx, 'conc', f, ['-rounds', '50', '-mode', 'trace'], shards=1, prefix='replay')
    bad = 0
    for o, v in vlib.run_oracle(ctx, 'CacheTrace', obsfiles):
        if v['c17lock'] == 'fail':
            bad += 1
            if bad == 1:
                print(json.dumps({'events': o['events'], 'verdict': v}))
    print('REPRODUCED in %d of 50 rounds' % bad if bad else 'NOT-REPRODUCED in 50 rounds')
    return 1 if bad else 0


CHECKS['C17'] = check_c17
REPLAY['conc'] = replay_conc
REPLAY['conc-stress'] = replay_conc
