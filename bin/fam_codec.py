"""Codec family: C01, C06, C07, C14, C15 (and C19 in fam_valid)."""
import json
import os
import subprocess
import sys

import vlib
from vlib import Broken, log

ALLKINDS = ['swagger', 'info', 'contact', 'license', 'externalDocs', 'tag', 'xml', 'operation', 'pathItem', 'paths', 'response',
            'responses', 'header', 'items', 'schema', 'parameter', 'securityScheme']
PAIRKINDS_QUICK = ['schema', 'parameter', 'header', 'items', 'response']


def vocabulary(ctx):
    """(Re)generate Vocabulary.tla from the meta-schemas of /repo's working tree."""
    d = vlib.spec_dir(ctx)
    out = os.path.join(d, 'Vocabulary.tla')
    if not os.path.exists(os.path.join(d, 'Vocabulary.json')):
        rc, o = vlib.run([sys.executable, os.path.join(vlib.VERIF, 'tools', 'gen_vocabulary.py'), vlib.REPO, out], check=False)
        if rc != 0:
            raise Broken('vocabulary generation failed: ' + o)
    return os.path.join(d, 'Vocabulary.json')


def gen_cases(ctx, families, maxchain, pairkinds):
    vocabulary(ctx)
    out = ctx.path('codec_%s_%d_%d.ndjson' % ('-'.join(sorted(families)), maxchain, len(pairkinds)))
    if os.path.exists(out):
        return out
    cfg = ('CONSTANTS\nFamilies = {%s}\nMaxChain = %d\nPairKinds = {%s}\nOutFile = "%s"\nINIT Init\nNEXT Next\n'
           % (', '.join('"%s"' % f for f in families), maxchain, ', '.join('"%s"' % k for k in pairkinds), out))
    # the enumerator also checks its own laws (CoversVocabulary, RequiredKnown)
    vlib.model_check(ctx, 'CodecCases', cfg, 'enum_%s_c%d' % ('-'.join(sorted(families)), maxchain), workers=1, timeout=2400, heap='8g')
    return out


def run_codec(ctx, families, maxchain, pairkinds, names=('plain', 'special'), extra=None):
    vocab = vocabulary(ctx)
    cases = gen_cases(ctx, families, maxchain, pairkinds)
    pairs = []
    for nm in names:
        obsfiles = vlib.run_worker(ctx, 'codec', cases, ['-vocab', vocab, '-names', nm] + (extra or []), prefix='codec_' + nm)
        pairs += vlib.run_oracle(ctx, 'CodecOracle', obsfiles)
    return pairs


def brief(o, v, what=''):
    c = o['case']
    ms = ['%s=%s' % (m['name'], m['cls']) for m in c['members']]
    chain = '/'.join('%s.%s' % (e['kind'], e['kw']) for e in c['chain'])
    return '%s kind=%s%s %s members=%s src=%s -> %s %s' % (c['fam'], c['kind'], ('/' + c['fl']) if c['fl'] else '', ('in ' + chain) if chain else '',
                                                        ms, o['src'][:160], o['outcome'], what)


def replay_obj(o, v):
    return {'family': 'codec', 'case': o['case'], 'names': o.get('names', 'plain'), 'src': o['src'], 'n1': o.get('n1'), 'n2': o.get('n2'),
            'diff': o.get('diff'), 'gobdiff': o.get('gobdiff'), 'badptr': o.get('badptr'), 'outcome': o['outcome'], 'err': o['err'], 'verdict': v}


def collect(ctx, rep, pairs, preds, detail, nontrivial):
    for o, v in pairs:
        rep.evaluations += 1
        if o['outcome'] in ('fatal', 'timeout'):
            v = dict(v)
        if nontrivial(o, v):
            rep.nontrivial.add(o['src'])
        for p in preds:
            rep.count(p + ':' + v[p])
            if v[p] == 'fail':
                rep.fail(p, replay_obj(o, v), v.get('kf', []), brief(o, v, detail(o, v)))
        if len(rep.samples) < 4 and len(o['case']['chain']) >= 1 and o['outcome'] == 'ok':
            rep.samples.append({'case': o['case'], 'src': o['src'], 'encoded': o.get('n1', '')[:300]})


ASSUME = ['value classes are concretised by one representative each; member names of maps come from the plain and from the special '
          '(quotes, backslashes, control, non-ASCII, slash, tilde, percent, braces) pools',
          'the vocabulary (keywords, required members, extension admission) is read from the meta-schemas in /repo/schemas at every run']


def tier_params(ctx):
    if ctx.tier == 'thorough':
        return 4, ALLKINDS
    return 2, PAIRKINDS_QUICK


def check_c01(ctx):
    vlib.build_worker(ctx)
    maxchain, pk = tier_params(ctx)
    rep = vlib.Report(ctx)
    pairs = run_codec(ctx, ['single', 'pair', 'combo', 'ext', 'chain'], maxchain, pk)
    collect(ctx, rep, pairs, ['c01'], lambda o, v: 'diff=%s err=%s' % (o.get('diff', ''), o['err'][:80]), lambda o, v: v['nf'])
    return rep.finish(
        'model_checking',
        'CodecCases.tla over the generated Vocabulary.tla: for every object kind and flavour (5 parameter locations, 6 security '
        'scheme types) every keyword of the Swagger 2.0 / draft-04 meta-schemas (and the library-only keywords) alone with every '
        'value class of its normal form (zero-valued numeric validations, required members at their empty value, union shapes, '
        'security / scopes shapes), every unordered pair of optional keywords (quick: schema, parameter, header, items, response; '
        'thorough: all kinds), an x- extension with every payload shape on every kind that admits one, unknown keywords on schemas, '
        'and every nesting chain of <= %d vocabulary edges (direct, map value, list element, union member). TLC checks that the '
        'enumeration covers every meta-schema keyword. Each document is rendered, decoded into the Go type of its outermost kind '
        'and encoded; CodecOracle.tla decides normal form from the vocabulary and requires the encoding to equal the source as a '
        'JSON value (numbers as exact rationals). distinct_nontrivial = distinct normal-form source documents.' % maxchain,
        ASSUME, exhaustive=True)


def check_c07(ctx):
    vlib.build_worker(ctx)
    maxchain, pk = tier_params(ctx)
    rep = vlib.Report(ctx)
    pairs = run_codec(ctx, ['wild', 'payload', 'odd', 'single', 'combo', 'ext', 'chain'] + (['pair'] if ctx.tier == 'thorough' else []), maxchain, pk,
                      extra=['-mutate', '400' if ctx.tier == 'thorough' else '40'])
    collect(ctx, rep, pairs, ['c07total', 'c07idem', 'c07bytes'], lambda o, v: 'n1=%s n2=%s err=%s' % (o.get('n1', '')[:120], o.get('n2', '')[:120], o['err'][:200]),
            lambda o, v: o['case']['fam'] in ('wild', 'payload', 'odd'))
    rep.counts['byte_level_mutants'] = sum(o.get('nmut', 0) for o, v in pairs)
    # properties carrying x-order: the normal form is one fixed text whatever order the members arrive in
    ordering_part(ctx, rep, 'c07order')
    return rep.finish(
        'model_checking',
        'CodecCases.tla family "wild": every keyword of every kind / flavour with each of 13 value classes, right or wrong (null, '
        'booleans, zero, number, empty and non-empty string, empty / string / object / mixed array, empty and non-empty object), '
        'family "payload": free-form members with nulls, empty containers and nested mixtures, family "odd": odd strings ("#", "##", bad percent escapes, bad hosts, spaces, control characters, bad ~ escapes, very long fragments) at every $ref / $schema / id / url member, plus the normal-form families and '
        'nesting chains; every document is decoded into its model type in a watchdogged child process. Predicates: the outcome is '
        'a value or an error (no panic, hang, fatal error); when decoding succeeds the encoding n1 is reproduced byte for byte by '
        'decoding and encoding n1 again. Byte level (outside TLC\'s reach, exploration strength): each rendered document is '
        'truncated / byte-flipped at seeded offsets and decoded into the same type (totality only). distinct_nontrivial = distinct '
        'wild / payload source documents.',
        ASSUME + ['member names that differ from a keyword by letter case only are not generated yet (the property excepts them from idempotence)'],
        exhaustive=True)


def check_c14(ctx):
    vlib.build_worker(ctx)
    maxchain, pk = tier_params(ctx)
    rep = vlib.Report(ctx)
    pairs = run_codec(ctx, ['single', 'pair', 'combo', 'ext', 'payload', 'chain', 'odd'], maxchain, pk)
    collect(ctx, rep, pairs, ['c14'], lambda o, v: 'gob=%s %s' % (o.get('gob'), o.get('gobdiff', '')), lambda o, v: o.get('gob') != 'na')
    return rep.finish(
        'model_checking',
        'The C01 enumeration plus the payload family (nulls, empty arrays / objects, nested mixtures inside default, example, enum, '
        'examples and extensions) for every document whose outermost kind is a gob carrier (Swagger, Operation, Parameter, Schema, '
        'Response; references are covered by C13): decode, gob-encode, gob-decode, JSON-encode; the result must equal the JSON '
        'encoding of the original value (exact JSON comparison). distinct_nontrivial = distinct source documents sent through gob.',
        ASSUME, exhaustive=True)


def check_c15(ctx):
    vlib.build_worker(ctx)
    maxchain, pk = tier_params(ctx)
    rep = vlib.Report(ctx)
    pairs = run_codec(ctx, ['single', 'pair', 'combo', 'ext', 'chain', 'odd'], maxchain, pk)
    collect(ctx, rep, pairs, ['c15'], lambda o, v: 'pointers=%s' % [(b['ptr'], b['err'][:60] or b['typed'][:40], b['json'][:40]) for b in o['badptr'] if b['ptr'] in v['bad15']][:3],
            lambda o, v: o.get('nptr', 0) > 0)
    rep.counts['pointers_evaluated'] = sum(o.get('nptr', 0) for o, v in pairs)
    return rep.finish(
        'model_checking',
        'Every JSON pointer into the encoding of every C01 document (all paths of the JSON tree, tokens with ~0 / ~1, numeric '
        'tokens, status codes and default, extension members, unknown schema keywords): evaluated with jsonpointer on the typed '
        'value and on the generic decoding of its encoding; results compared as JSON values. The worker reports the trail of '
        '(holder kind, token, value type) of every disagreement; CodecOracle.tla decides whether the pointer is in scope (it '
        'addresses one of the listed object kinds, or a non-$ref member of one) and fails the case if so.',
        ASSUME + ['pointers into plain values and members of contact / license / externalDocs / xml objects are out of the property\'s scope'],
        exhaustive=True)


def replay_codec(ctx, rec):
    vlib.build_worker(ctx)
    vocab = vocabulary(ctx)
    c = rec['case']
    f = ctx.path('c.ndjson')
    open(f, 'w').write(json.dumps(c['case']) + '\n')
    obsfiles = vlib.run_worker(ctx, 'codec', f, ['-vocab', vocab, '-names', c.get('names') or 'plain', '-mutate', '40'], shards=1, prefix='replay')
    bad = 0
    for o, v in vlib.run_oracle(ctx, 'CodecOracle', obsfiles):
        print(json.dumps({'src': o['src'], 'n1': o.get('n1'), 'n2': o.get('n2'), 'diff': o.get('diff'), 'gob': o.get('gob'), 'gobdiff': o.get('gobdiff'),
                          'badptr': o.get('badptr'), 'outcome': o['outcome'], 'err': o['err'], 'verdict': v}, indent=1))
        if v.get(rec['predicate']) == 'fail':
            bad += 1
    print('REPRODUCED' if bad else 'NOT-REPRODUCED')
    return 1 if bad else 0


CHECKS = {'C01': check_c01, 'C07': check_c07, 'C14': check_c14, 'C15': check_c15}
REPLAY = {'codec': replay_codec}


def ordering_part(ctx, rep, pred):
    """The comparator of `properties`: strict total order, model-checked; every item set replayed over all source permutations."""
    # (a) the comparator: strict total order, model-checked; every item set replayed over all source permutations
    maxitems = 4 if ctx.tier == 'thorough' else 3
    orders = ctx.path('orders.ndjson')
    cfg = 'CONSTANTS\nMaxItems = %d\nOutFile = "%s"\nINIT Init\nNEXT Next\n' % (maxitems, orders)
    vlib.model_check(ctx, 'Ordering', cfg, 'order_M%d' % maxitems, workers=1, timeout=1800, heap='8g')
    for of in vlib.run_worker(ctx, 'order', orders, [], prefix='order'):
        for l in open(of):
            o = json.loads(l)
            rep.evaluations += 1
            rep.nontrivial.add(json.dumps(o['items'], sort_keys=True))
            # C06 also demands THE order (x-order, then name) that Ordering.tla specifies; C07 only that the text is one fixed point
            ok = o['det'] and o['intok'] and not o['err'] and (o['conforms'] or pred != 'c06order')
            rep.count(pred + ':' + ('pass' if ok else 'fail'))
            if not o['conforms']:
                rep.count('ordering_drift')
            if not ok:
                rep.fail(pred + '', {'family': 'order', 'items': o['items'], 'want': o['want']}, [],
                         'properties %s: %d distinct encodings over %d runs, order %s (specified %s) %s' % (
                             [(i['name'], i['xo']) for i in o['items']], o['outs'], o['runs'], o['got'], o['want'], o['err']))
            if len(rep.samples) < 2 and len(o['items']) == 3 and any(i['xo'] == 'f15' for i in o['items']):
                rep.samples.append({'items': o['items'], 'encoded': o['sample'], 'runs': o['runs']})


def check_c06(ctx):
    vlib.build_worker(ctx)
    maxchain, pk = tier_params(ctx)
    rep = vlib.Report(ctx)
    ordering_part(ctx, rep, 'c06order')
    # (b) every encoding performed for the vocabulary families: token scan, parse-back, determinism
    pairs = run_codec(ctx, ['single', 'pair', 'combo', 'ext', 'chain', 'wild', 'payload', 'odd'], maxchain, pk)
    collect(ctx, rep, pairs, ['c06'], lambda o, v: 'dups=%s faithful=%s det=%s' % (o.get('dups'), o.get('faithful'), o.get('det')),
            lambda o, v: o['outcome'] == 'ok')
    # (c) values obtained through the builder API
    bf = ctx.path('builder.ndjson')
    open(bf, 'w').write(''.join(json.dumps({'prog': i}) + '\n' for i in range(64)))
    for of in vlib.run_worker(ctx, 'builder', bf, [], prefix='builder', shards=4):
        for l in open(of):
            o = json.loads(l)
            if o.get('skip'):
                continue
            rep.evaluations += 1
            rep.nontrivial.add('builder:%s' % o['name'])
            ok = o['ok']
            rep.count('c06builder:' + ('pass' if ok else 'fail'))
            if not ok:
                rep.fail('c06builder', {'family': 'builder', 'prog': o['prog'], 'name': o['name']}, [],
                         'builder program %s: %s; encoded=%s' % (o['name'], o['why'], o['encoded'][:200]))
    return rep.finish(
        'model_checking',
        'Ordering.tla: transcription of the property comparator (x-order via GetInt: numbers truncated, numeric strings, anything '
        'else absent; then name); TLC checks that it is irreflexive, total and transitive on items with distinct names and that '
        'every item set has a least element, and exports every set of <= %d properties over the x-order classes {absent, 1, 2, '
        '"1", "2", 1.5, "zz", true} with its sorted sequence. Each set is decoded from every permutation of the source member '
        'order and encoded 3 times: all encodings byte-identical, integer-valued x-orders in (x-order, name) order. Every encoding '
        'performed for the vocabulary families (C01 / C07 / C14 documents, plain and special member names) is token-scanned for '
        'duplicate member names, parsed back, and re-encoded / re-decoded from permuted sources for byte equality. A table of '
        'builder-API programs (AddExtension, SetProperty, AddParam, RespondsWith, WithDefault ...) is run and the resulting values '
        'encoded under the same checks.' % (4 if ctx.tier == 'thorough' else 3),
        ASSUME, exhaustive=True)


CHECKS['C06'] = check_c06


# ------------------------------------------------------------------ C19
def check_c19(ctx):
    from concurrent.futures import ThreadPoolExecutor
    vlib.build_worker(ctx)
    vocab = vocabulary(ctx)
    rep = vlib.Report(ctx)
    maxchain = 8 if ctx.tier == 'thorough' else 6
    cases = gen_cases(ctx, ['valid'], maxchain, [])
    obsfiles = vlib.run_worker(ctx, 'codec', cases, ['-vocab', vocab, '-names', 'plain', '-expand'], prefix='valid')
    # the same documents with member names from the special pool (quotes, control characters, ~ and / in map keys,
    # unusual three-digit status codes)
    obsfiles += vlib.run_worker(ctx, 'codec', cases, ['-vocab', vocab, '-names', 'special', '-expand'], prefix='validsp')

    def validate(of):
        out = of + '.val'
        rc, o = vlib.run(['python3-vt', '-W', 'ignore', os.path.join(vlib.VERIF, 'tools', 'validate_swagger.py'), vlib.REPO, of, out], check=False, timeout=3000)
        if rc != 0:
            raise Broken('validator failed: ' + o[-2000:])
        # merge the instrument's verdicts into the observation handed to TLC
        vals = [json.loads(l) for l in open(out)]
        merged = of + '.m'
        with open(merged, 'w') as w:
            for l, v in zip(open(of), vals):
                o = json.loads(l)
                f = lambda x: 't' if x is True else ('f' if x is False else 'n')
                o['validin'], o['validrt'], o['validexp'], o['why19'] = f(v['validin']), f(v['validrt']), f(v['validexp']), v['why']
                for k in ('srcraw', 'n1raw', 'expanded'):
                    o.pop(k, None)
                w.write(json.dumps(o) + '\n')
        return merged
    with ThreadPoolExecutor(max_workers=vlib.NCPU) as ex:
        merged = list(ex.map(validate, obsfiles))
    pairs = vlib.run_oracle(ctx, 'CodecOracle', merged)
    collect(ctx, rep, pairs, ['c19rt', 'c19exp'], lambda o, v: 'validator: %s experr=%s' % (o.get('why19', '')[:160], o.get('experr', '')[:80]),
            lambda o, v: o.get('validin') == 't')
    rep.counts['inputs_rejected_by_validator'] = sum(1 for o, v in pairs if o.get('validin') != 't')
    return rep.finish(
        'model_checking',
        'CodecCases.tla family "valid": whole Swagger documents grown from the root along the vocabulary spine (info, contact, '
        'license, tags, paths, path items, operations, parameters of all five locations, responses, headers, items, schemas with '
        'properties / items / allOf / additionalProperties / xml / externalDocs, security definitions of all six flavours) of <= %d '
        'edges, each with every single member of the innermost object at every normal-form value class (incl. required members at '
        'their empty value, $ref members with resolvable targets, an x- extension). Instrument: python jsonschema Draft4Validator '
        'with the schemas shipped in /repo; only inputs it accepts are used. For each, the re-encoding after a decode and the result '
        'of a successful ExpandSpec must validate; the verdicts are combined by CodecOracle.tla. distinct_nontrivial = distinct '
        'validator-accepted source documents.' % maxchain,
        ASSUME + ['validity is observed by python jsonschema 4.x (Draft4Validator) - an instrument, like the race detector',
                  'expansion inputs are well-founded by construction (every $ref targets a concrete object)'],
        exhaustive=True)


CHECKS['C19'] = check_c19
