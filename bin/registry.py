"""Property id -> check function; family -> replay function."""
import fam_expander
import fam_urls

CHECKS = {}
REPLAY = {}
for m in (fam_expander, fam_urls):
    CHECKS.update(m.CHECKS)
    REPLAY.update(getattr(m, 'REPLAY', {}))
