"""Property id -> check function; family -> replay function."""
import fam_expander
import fam_urls
import fam_small
import fam_state
import fam_codec

CHECKS = {}
REPLAY = {}
for m in (fam_expander, fam_urls, fam_small, fam_state, fam_codec):
    CHECKS.update(m.CHECKS)
    REPLAY.update(getattr(m, 'REPLAY', {}))
