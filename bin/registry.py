"""Property id -> check function."""
import fam_expander

CHECKS = {}
CHECKS.update(fam_expander.CHECKS)
