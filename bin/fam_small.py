"""Small explicit state machines: C20 (validation accessors), C13 (reference values)."""
import json
import os

import vlib
from vlib import Broken, log


def val_cfg(mode, infile, outfile, progfile, maxprog, carriers, mc, edge=False):
    cfg = ('CONSTANTS\nMode = "%s"\nInFile = "%s"\nOutFile = "%s"\nProgFile = "%s"\nMaxProg = %d\nCarriers = {%s}\nEdgeOnly = %s\n'
           % (mode, infile, outfile, progfile, maxprog, ', '.join('"%s"' % c for c in carriers), 'TRUE' if edge else 'FALSE'))
    if mc:
        cfg += 'SPECIFICATION Spec\nINVARIANTS LawGetSet LawClearExact LawClearIdem\n'
    else:
        cfg += 'INIT Init\nNEXT Next\n'
    return cfg


def check_c20(ctx):
    vlib.build_worker(ctx)
    rep = vlib.Report(ctx)
    if ctx.tier == 'thorough':
        plan = [('parameter', 3, 1, False), ('header', 2, 1, False), ('items', 2, 1, False), ('schema', 1, 1, False), ('schema', 4, 1, True),
                ('schema+ref', 3, 1, True)]
    else:
        plan = [('parameter', 2, 2, False), ('header', 1, 1, False), ('items', 1, 1, False), ('schema', 2, 1, True), ('schema+ref', 2, 1, True)]
    for carrier, maxprog, sample, edge in plan:
        # 'schema+ref': the schema carrier also holds a $ref (validation keywords beside a reference are legal and kept)
        withref = carrier.endswith('+ref')
        carrier = carrier.replace('+ref', '')
        label = '%s%s_p%d%s' % (carrier, '_ref' if withref else '', maxprog, '_edge' if edge else '')
        states, progs = ctx.path('vs_%s.ndjson' % label), ctx.path('vp_%s.ndjson' % label)
        # model check of the accessor state machine + export of its initial states and programs
        vlib.model_check(ctx, 'Validations', val_cfg('gen', '', states, progs, maxprog, [carrier], True, edge), label, workers=8, timeout=2400)
        if sample > 1:
            lines = open(states).read().splitlines(keepends=True)
            open(states, 'w').writelines(l for i, l in enumerate(lines) if i % sample == ctx.seed % sample)
        obsfiles = vlib.run_worker(ctx, 'validations', states, ['-progs', progs] + (['-withref'] if withref else []), prefix='val_' + label)
        pairs = vlib.run_oracle(ctx, 'Validations', obsfiles, cfg_names=('InFile', 'OutFile'),
                                consts={'Mode': '"judge"', 'ProgFile': '""', 'MaxProg': str(maxprog), 'Carriers': '{}', 'EdgeOnly': 'TRUE'})
        for o, v in pairs:
            rep.evaluations += 1
            if o['err']:
                rep.fail('c20', {'family': 'validations', 'c': o['c'], 'v0': o['v0'], 'prog': o['prog'], 'err': o['err'], 'withref': withref}, [],
                         'panic on carrier %s: %s' % (o['c'], o['err']))
                continue
            rep.count('c20:' + v['c20'])
            rep.count('carrier:' + o['c'])
            if any(x != 'a' for x in o['v0'].values()):
                rep.nontrivial.add((o['c'], json.dumps(o['v0'], sort_keys=True), '/'.join(o['prog']), o['steps'][1]['ncb'] if len(o['steps']) > 1 else 0))
            if v['c20'] == 'fail':
                st = o['steps'][v['at'] - 1]
                rep.fail('c20', {'family': 'validations', 'c': o['c'], 'v0': o['v0'], 'prog': o['prog'], 'steps': o['steps'], 'at': v['at'], 'withref': withref}, [],
                         'carrier=%s initial=%s program=%s: step %d (%s %s ncb=%s) observed v=%s log=%s has=%s other-changed=%s' % (
                             o['c'], {k: x for k, x in o['v0'].items() if x != 'a'}, o['prog'], v['at'], st['op'], st['fam'], st['ncb'],
                             {k: x for k, x in st['v'].items() if x != 'a'}, st['log'], st['has'], st['other'] != o['other0']))
            if len(rep.samples) < 3 and len(o['prog']) > 1 and o['steps'][1]['log']:
                rep.samples.append({'carrier': o['c'], 'initial': o['v0'], 'program': o['prog'], 'steps': o['steps'][:4]})
    return rep.finish(
        'model_checking',
        'Validations.tla: state = carrier x (keyword -> absent | zero | non-zero); TLC explores every subset of the 12 (15 for '
        'schemas) keywords present, all with zero or all with non-zero values, and every clear program (ordered sequences of '
        'distinct families, 0-2 callbacks) up to the tier\'s length, checking LawGetSet, LawClearExact, LawClearIdem; it exports '
        'the initial states and programs. The worker steps the real Schema / Parameter / Header / Items through every program from '
        'every state (quick: for schemas the 12 common keywords are present all / none / one at a time, crossed with every subset of the 3 object keywords), recording after each step the projected validation set, the '
        'callback log (callback index, keyword, value class), the has-query and a digest of all other fields; reading and writing '
        'back after every step; writing the complement set and reading it back at the end. TLC validates every recorded trace '
        'step by step against the actions of the same module. distinct_nontrivial = distinct (carrier, non-empty state, program, callbacks).',
        ['a schema has no Clear*/Has* methods of its own: clears are Validations() -> Clear* -> SetValidations()',
         'values are one representative per class (zero / non-zero)'],
        exhaustive=(ctx.tier == 'thorough'))


def replay_validations(ctx, rec):
    vlib.build_worker(ctx)
    c = rec['case']
    states, progs = ctx.path('rs.ndjson'), ctx.path('rp.ndjson')
    open(states, 'w').write(json.dumps({'c': c['c'], 'v': c['v0']}) + '\n')
    open(progs, 'w').write(''.join(json.dumps({'c': c['c'], 'prog': c['prog'], 'ncb': n}) + '\n' for n in (0, 1, 2)))
    obsfiles = vlib.run_worker(ctx, 'validations', states, ['-progs', progs] + (['-withref'] if c.get('withref') else []), shards=1, prefix='replay')
    pairs = vlib.run_oracle(ctx, 'Validations', obsfiles, cfg_names=('InFile', 'OutFile'),
                            consts={'Mode': '"judge"', 'ProgFile': '""', 'MaxProg': '3', 'Carriers': '{}', 'EdgeOnly': 'TRUE'})
    bad = 0
    for o, v in pairs:
        print(json.dumps({'steps': o['steps'], 'verdict': v}))
        bad += v['c20'] == 'fail' or bool(o['err'])
    print('REPRODUCED' if bad else 'NOT-REPRODUCED')
    return 1 if bad else 0


CHECKS = {'C20': check_c20}
REPLAY = {'validations': replay_validations}


# ------------------------------------------------------------------ C13
def check_c13(ctx):
    vlib.build_worker(ctx)
    rep = vlib.Report(ctx)
    # (three segments over the 8-letter alphabet are 9.4 M conversions: the thorough tier deepens the programs instead)
    maxsegs, maxprog = (2, 3) if ctx.tier == 'thorough' else (2, 2)
    refs, progs = ctx.path('refs.ndjson'), ctx.path('refprogs.ndjson')
    cfg = ('CONSTANTS\nMaxSegs = %d\nMaxProg = %d\nOutFile = "%s"\nProgFile = "%s"\nSPECIFICATION Spec\n'
           'INVARIANTS C13_Idempotent C13_Canonical C13_FlagsOfCanon\nPROPERTY C13_Stable\n' % (maxsegs, maxprog, refs, progs))
    vlib.model_check(ctx, 'RefValue', cfg, 'S%d_P%d' % (maxsegs, maxprog), workers=8, timeout=2400)
    for of in vlib.run_worker(ctx, 'refvalue', refs, ['-progs', progs], prefix='ref'):
        for l in open(of):
            o = json.loads(l)
            rep.evaluations += 1
            rep.count('c13:' + ('pass' if o['ok'] else 'fail'))
            r = o['case']['r']
            if r['up'] or r['port'] == 'default' or 'dup' in r['segs'] or any(s in ('spc', 'uni', 'esc') for s in r['segs']) or r['frag'] in ('esc', 'pct', 'empty'):
                rep.nontrivial.add((o['orig'], '/'.join(o['prog'])))
            if not o['ok']:
                why = o['err'] or next((s['op'] + ': ' + s['why'] for s in o['steps'] if not s['ok']), '')
                rep.fail('c13', {'family': 'refvalue', 'case': o['case'], 'prog': o['prog'], 'orig': o['orig'], 'want': o['want'], 'steps': o['steps']}, [],
                         'reference %r (canonical %r) program %s: %s; steps=%s' % (o['orig'], o['want'], o['prog'], why,
                                                                                  [(s['op'], s['text'], s['json']) for s in o['steps']][:4]))
            if len(rep.samples) < 4 and r['up'] and 'dup' in r['segs'] and len(o['prog']) > 1:
                rep.samples.append({'written': o['orig'], 'canonical': o['want'], 'program': o['prog'],
                                    'steps': [(s['op'], s['text'], s['json']) for s in o['steps']]})
    return rep.finish(
        'model_checking',
        'RefValue.tla: conversion machine str -Parse-> ref -String-> str, ref <-JSON-> json, ref <-gob-> gob over reference strings '
        'described by syntax classes (scheme none/http/https/file in lower or upper case, host with no / default / other port, '
        'relative or absolute paths of <= %d segments over {plain, dotted, percent-escaped, raw space, non-ASCII} with doubled '
        'slashes, fragment none / "#" / pointer / pointer with ~0~1 / pointer with %%25); TLC checks C13_Idempotent, C13_Canonical, '
        'C13_Stable and exports every reference with its canonical value and classification flags. The worker renders each, parses '
        'it with the real package and runs every conversion program of length <= %d (re-parse of the printed text, JSON round '
        'trip, gob round trip), comparing after every step the printed text with the canonical text, the six flags with '
        'Flags(Canon) and the JSON form ({"$ref": text}; {} for the zero value). distinct_nontrivial = distinct (text, program) '
        'whose text is not already canonical.' % (maxsegs, maxprog),
        ['one concrete representative per syntax class', 'authority forms with user info or IPv6 hosts are outside the property\'s domain'],
        exhaustive=True)


def replay_refvalue(ctx, rec):
    vlib.build_worker(ctx)
    c = rec['case']
    refs, progs = ctx.path('r.ndjson'), ctx.path('p.ndjson')
    open(refs, 'w').write(json.dumps(c['case']) + '\n')
    open(progs, 'w').write(json.dumps({'prog': c['prog']}) + '\n')
    bad = 0
    for of in vlib.run_worker(ctx, 'refvalue', refs, ['-progs', progs], shards=1, prefix='replay'):
        for l in open(of):
            o = json.loads(l)
            print(json.dumps({'orig': o['orig'], 'want': o['want'], 'steps': o['steps'], 'err': o['err']}))
            bad += not o['ok']
    print('REPRODUCED' if bad else 'NOT-REPRODUCED')
    return 1 if bad else 0


CHECKS['C13'] = check_c13
REPLAY['refvalue'] = replay_refvalue
