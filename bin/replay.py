"""check.py --replay <file>: re-run one recorded violation."""
import json
import vlib


def main(path):
    rec = json.load(open(path))
    ctx = vlib.Ctx(rec.get('property', 'replay'), 'quick', 1)
    try:
        fam = rec['case'].get('family')
        if fam == 'expander':
            import fam_expander
            return fam_expander.replay(ctx, rec)
        import registry
        fn = registry.REPLAY.get(fam)
        if fn is None:
            print('no replay for family', fam)
            return 2
        return fn(ctx, rec)
    finally:
        ctx.cleanup()
