"""URL family: C12 (RFC 3986 location of $ref targets), C11 (equivalent spellings of the root location)."""
import hashlib
import json
import os

import vlib
from vlib import Broken, log


def gen_urlcases(ctx, maxsegs):
    key = 'url_%s_S%d' % (vlib.spec_hash('UrlCases', 'Urls'), maxsegs)

    def produce():
        out = ctx.path(key + '.ndjson')
        cfg = 'CONSTANTS\nMaxSegs = %d\nMode = "gen"\nInFile = ""\nOutFile = "%s"\nINIT Init\nNEXT Next\n' % (maxsegs, out)
        rc, o = vlib.tlc(ctx, 'UrlCases', cfg, workers=1, timeout=1800, heap='6g', name='Gen_' + key)
        if rc != 0 or not os.path.exists(out):
            raise Broken('UrlCases generation / model laws failed:\n' + o[-3000:])
        return out
    return vlib.cached_gen(ctx, key, produce)


def check_c12(ctx):
    vlib.build_worker(ctx)
    maxsegs = 4 if ctx.tier == 'thorough' else 3
    # the model laws (LawAbsolute, LawSelf, LawNoDots, LawIdem) are re-checked on every run
    cfg = 'CONSTANTS\nMaxSegs = %d\nMode = "gen"\nInFile = ""\nOutFile = "%s"\nINIT Init\nNEXT Next\n' % (
        min(maxsegs, 3), ctx.path('laws.ndjson'))
    vlib.model_check(ctx, 'UrlCases', cfg, 'laws_S%d' % min(maxsegs, 3), workers=1)
    cases = gen_urlcases(ctx, maxsegs)
    obsfiles = vlib.run_worker(ctx, 'urls', cases, [], prefix='url')
    pairs = vlib.run_oracle(ctx, 'UrlCases', obsfiles, consts={'MaxSegs': str(maxsegs), 'Mode': '"judge"'},
                            cfg_names=('InFile', 'OutFile'))
    rep = vlib.Report(ctx)
    for o, v in pairs:
        rep.evaluations += 1
        if v['modelerr']:
            raise Broken('Urls!Resolve disagrees with net/url on base=%s ref=%s (model error, not a violation)' % (o['bases'], o['refs']))
        rep.count('c12:' + v['c12'])
        rep.count('api:' + o['api'])
        if o['ref']['segs'] and any(s in ('.', '..', 'esc', 'uni') for s in o['ref']['segs']):
            rep.nontrivial.add((o['bases'], o['refs'], o['api']))
        if v['c12'] == 'fail':
            rep.fail('c12', {'family': 'urls', 'base': o['base'], 'ref': o['ref'], 'want': o['want'], 'api': o['api'], 'id': o['id'],
                             'bases': o['bases'], 'refs': o['refs'], 'gots': o['gots'], 'outcome': o['outcome']}, [],
                     'api=%s base=%s ref=%s loader got %s (%s), RFC 3986 wants %s' % (
                         o['api'], o['bases'], o['refs'], o['gots'], o['outcome'], o['want']))
        if len(rep.samples) < 4 and o['ref']['segs'] and '..' in o['ref']['segs'] and 'esc' in o['ref']['segs']:
            rep.samples.append({'api': o['api'], 'base': o['bases'], 'ref': o['refs'], 'loader_arg': o['gots'], 'want': o['want']})
    # (c) references found in documents several hops away, and over successive calls that share one options value:
    # the graphs of the expansion family in the layouts that put documents in other directories, judged by
    # RefGraph!Bisimilar (whose Designates is Urls!Resolve from the containing document's location)
    import fam_expander as fe
    sd = fe.seeded(ctx)
    lays = ['subdir', 'otherdir', 'parent', 'remote'] if ctx.tier != 'thorough' else fe.ORDINARY
    batches = [fe.Batch(fe.G_N3_ALL_WF, lays, ['000'], [sd['rot']], reps=1, entry='ExpandSpec2:nobase,ExpandSpec2', names=sd['names'], spell='varied')]
    rep2 = fe.run_batches(ctx, batches, ['c02'], [], nontrivial=lambda o, v: v['wf'] and len(o['docurls']) > 1)
    rep.evaluations += rep2.evaluations
    rep.violations += rep2.violations
    for k_, n_ in rep2.counts.items():
        rep.counts['graphs:' + k_] = n_
    for k_, n_ in rep2.hit.items():
        rep.hit[k_] = rep.hit.get(k_, 0) + n_
    rep.nontrivial |= rep2.nontrivial
    return rep.finish(
        'model_checking',
        'TLC enumerates exhaustively every reference whose path has <= %d segments over {plain, dotted name, ".", "..", '
        'percent-escaped, non-ASCII} (last segment a name), in relative, root-relative, absolute file and absolute http form, with '
        'no fragment / "#" / "#/p", plus the empty and fragment-only references, against file bases at depth 0-2 and http / https '
        'bases; Urls!Resolve (RFC 3986 5.2 transcribed) gives the expected loader URL, its laws are model-checked and it is '
        'cross-checked on every pair against net/url.ResolveReference (disagreement = broken model, exit 2). Every pair is run '
        'through ExpandSchemaWithBasePath and ResolveRefWithBase with a recording PathLoader; TLC compares the recorded argument. '
        'Second hop: the same pairs with the base as an INTERMEDIATE document reached by an absolute $ref from a root whose location is a '
        'string prefix of it (schema, response and parameter holders): the request that follows must be Resolve(intermediate, ref). '
        'Successive calls: every enumerated N<=3 graph expanded twice with one options value, with and without RelativeBase, judged by bisimilarity. '
        'distinct_nontrivial = distinct (base, ref, api) whose path contains a dot segment, an escape or a non-ASCII segment.' % maxsegs,
        ['atoms are concretised as a, b.json, "e s" (written e%20s), "u\\u00e9"; one representative per class',
         'network-path references (//host/p) and queries are outside the enumerated alphabet'],
        exhaustive=True)


def replay_urls(ctx, rec):
    vlib.build_worker(ctx)
    c = rec['case']
    f = ctx.path('replay.ndjson')
    open(f, 'w').write(json.dumps({'base': c['base'], 'ref': c['ref'], 'want': c['want'], 'id': c.get('id', 1), 'api': c.get('api', '')}) + '\n')
    obsfiles = vlib.run_worker(ctx, 'urls', f, [], shards=1, prefix='replay')
    pairs = vlib.run_oracle(ctx, 'UrlCases', obsfiles, consts={'MaxSegs': '3', 'Mode': '"judge"'}, cfg_names=('InFile', 'OutFile'))
    bad = 0
    for o, v in pairs:
        print(json.dumps({'api': o['api'], 'base': o['bases'], 'ref': o['refs'], 'loader_arg': o['gots'], 'verdict': v}))
        if o['api'] == c.get('api') and v['c12'] == 'fail':
            bad += 1
    print('REPRODUCED' if bad else 'NOT-REPRODUCED')
    return 1 if bad else 0


def spell_cfg(site, depth, k, mode, infile, outfile, mc):
    cfg = ('CONSTANTS\nMaxRewrites = %d\nSite = "%s"\nDepth = %d\nMode = "%s"\nInFile = "%s"\nOutFile = "%s"\n'
           % (k, site, depth, mode, infile, outfile))
    if mc:
        cfg += 'SPECIFICATION Spec\nINVARIANTS C11_Canon C11_Idempotent\n'
    else:
        cfg += 'INIT Init\nNEXT Next\n'
    return cfg


def check_c11(ctx):
    vlib.build_worker(ctx)
    k = 4 if ctx.tier == 'thorough' else 3
    combos = [('file', 0), ('file', 1), ('file', 2), ('http', 1), ('https', 2)]
    if ctx.tier != 'thorough':
        combos = [('file', ctx.seed % 3), ('file', (ctx.seed + 1) % 3), ('http', 1), ('https', 2)]
    rep = vlib.Report(ctx)
    for site, depth in combos:
        label = '%s_d%d_k%d' % (site, depth, k)
        out = ctx.path('spell_%s.ndjson' % label)
        # model check + export of the reachable spellings in one TLC run
        vlib.model_check(ctx, 'Spell', spell_cfg(site, depth, k, 'gen', '', out, True), label, workers=4)
        obsfiles = vlib.run_worker(ctx, 'spell', out, ['-site', site, '-depth', str(depth)], prefix='spell_' + label, shards=8)
        consts = {'MaxRewrites': str(k), 'Site': '"%s"' % site, 'Depth': str(depth), 'Mode': '"judge"'}
        pairs = vlib.run_oracle(ctx, 'Spell', obsfiles, cfg_names=('InFile', 'OutFile'), consts=consts)
        hung = [o for o, v in pairs if o['outcome'] == 'timeout']
        if hung:
            # a hang may be the machine's doing: the first few are run again, alone, with a generous watchdog
            cf = ctx.path('spell_confirm_%s.ndjson' % label)
            open(cf, 'w').write(''.join(json.dumps(o['sp']) + '\n' for o in hung[:4]))
            again = vlib.run_worker(ctx, 'spell', cf, ['-site', site, '-depth', str(depth), '-watchdog', '30s'], prefix='spellc_' + label, shards=4)
            still = sum(1 for f in again for l in open(f) if json.loads(l)['outcome'] == 'timeout')
            log('[confirm] %d spellings hung; %d of %d hang again alone' % (len(hung), still, len(hung[:4])))
            if still < len(hung[:4]):
                pairs = [(o, v) for o, v in pairs if o['outcome'] != 'timeout']
        for o, v in pairs:
            rep.evaluations += 1
            if o['outcome'] == 'harness-error':
                raise Broken('spell harness: ' + o['err'])
            rep.nontrivial.add(o['text'])
            for pname in ('c11canon', 'c11out'):
                rep.count(pname + ':' + v[pname])
                if v[pname] == 'fail':
                    rep.fail(pname, {'family': 'spell', 'site': site, 'depth': depth, 'sp': o['sp'], 'text': o['text'], 'api': o['api'],
                                     'loads': o['loadss'], 'outcome': o['outcome'], 'err': o['err']}, [],
                             'api=%s RelativeBase=%s outcome=%s loads=%s err=%s' % (o['api'], o['text'], o['outcome'], o['loadss'][:3], o['err'][:80]))
            if len(rep.samples) < 5 and o['sp']['form'] == 'rel' and '..' in o['sp']['segs']:
                rep.samples.append({'RelativeBase': o['text'], 'api': o['api'], 'loader_requests': o['loadss']})
    return rep.finish(
        'model_checking',
        'Spell.tla: transition system of equivalence-preserving rewrites of a canonical location (insert "./", insert "zz/../", '
        'double a slash, switch between /path, file:/ and file:/// forms, spell the path relative to the working directory, '
        'upper-case the scheme, append a fragment, append a query to a file location); TLC checks C11_Canon / C11_Idempotent in '
        'every state reachable by <= %d rewrites and exports all of them (file locations at depth 0-2 below the working '
        'directory, http and https locations). Each is used as RelativeBase of ExpandSpec and ExpandSchemaWithBasePath on an '
        'acyclic three-document fixture in a private working directory; TLC compares the set of loader requests with the '
        'canonical URLs (Urls.tla records) and the output must be byte-identical to the run with the canonical spelling. '
        'distinct_nontrivial = distinct rendered spellings.' % k,
        ['the fixture is one acyclic three-document specification', 'Windows drive-letter spellings are not built here'],
        exhaustive=True)


def replay_spell(ctx, rec):
    vlib.build_worker(ctx)
    c = rec['case']
    f = ctx.path('replay.ndjson')
    open(f, 'w').write(json.dumps(c['sp']) + '\n')
    obsfiles = vlib.run_worker(ctx, 'spell', f, ['-site', c['site'], '-depth', str(c['depth'])], shards=1, prefix='replay')
    pairs = vlib.run_oracle(ctx, 'Spell', obsfiles, cfg_names=('InFile', 'OutFile'),
                            consts={'MaxRewrites': '3', 'Site': '"%s"' % c['site'], 'Depth': str(c['depth']), 'Mode': '"judge"'})
    bad = 0
    for o, v in pairs:
        print(json.dumps({'api': o['api'], 'RelativeBase': o['text'], 'loads': o['loadss'], 'err': o['err'], 'verdict': v}))
        if v['c11canon'] == 'fail' or v['c11out'] == 'fail':
            bad += 1
    print('REPRODUCED' if bad else 'NOT-REPRODUCED')
    return 1 if bad else 0


CHECKS = {'C12': check_c12, 'C11': check_c11}
REPLAY = {'urls': replay_urls, 'spell': replay_spell}


# ------------------------------------------------------------------ C05
def gen_ptr(ctx, maxlen):
    key = 'ptr_%s_L%d' % (vlib.spec_hash('PtrCases'), maxlen)

    def produce():
        out = ctx.path(key + '.ndjson')
        cfg = 'CONSTANTS\nMaxLen = %d\nOutFile = "%s"\nINIT Init\nNEXT Next\n' % (maxlen, out)
        vlib.model_check(ctx, 'PtrCases', cfg, 'laws_L%d' % maxlen, workers=1, timeout=1800)
        return out
    return vlib.cached_gen(ctx, key, produce)


def check_c05(ctx):
    import fam_expander as fe
    vlib.build_worker(ctx)
    rep = vlib.Report(ctx)
    sd = fe.seeded(ctx)
    # (a) pointer layer: names over the escaping alphabet, escaping done by TLA+
    maxlen = 3 if ctx.tier == 'thorough' else 2
    cfg = 'CONSTANTS\nMaxLen = 2\nOutFile = "%s"\nINIT Init\nNEXT Next\n' % ctx.path('ptrlaws.ndjson')
    vlib.model_check(ctx, 'PtrCases', cfg, 'laws_L2', workers=1)
    names = [json.loads(l) for l in open(gen_ptr(ctx, maxlen))]
    chunks = [names[i::8] for i in range(8)] if len(names) > 200 else [names]
    pf = ctx.path('ptrcases.ndjson')
    with open(pf, 'w') as f:
        for ch in chunks:
            if ch:
                f.write(json.dumps({'names': ch}) + '\n')
    for of in vlib.run_worker(ctx, 'ptr', pf, ['-watchdog', '600s'], prefix='ptr', shards=8):
        for l in open(of):
            o = json.loads(l)
            rep.evaluations += 1
            if o['outcome'] == 'harness-error':
                raise Broken('ptr harness: ' + o['err'])
            rep.nontrivial.add((o['name'], o['section'], o['where'], o['mode']))
            rep.count('c05ptr:' + ('pass' if o['ok'] else 'fail'))
            if not o['ok']:
                rep.fail('c05ptr', {'family': 'ptr', 'obs': o}, [],
                         'name=%r $ref=%s mode=%s: %s got=%r want=%r %s' % (o['name'], o['refs'], o['mode'], o['outcome'], o['got'], o['want'], o['err'][:80]))
            if len(rep.samples) < 2 and '~' in o['name'] and '/' in o['name']:
                rep.samples.append({'member_name': o['name'], 'ref': o['refs'], 'mode': o['mode'], 'got': o['got']})
    # (b) graph layer: every node of every enumerated graph, nested pointers, other documents, dangling
    layouts = fe.ALL_LAYOUTS if ctx.tier == 'thorough' else sorted(set([fe.ALL_LAYOUTS[(ctx.seed + i) % len(fe.ALL_LAYOUTS)] for i in (0, 4)] + ["remoteq"]))
    gensets = [fe.G_N3_ALL_WF] + ([fe.G_N4_S_WF, fe.G_N3_D3_WF] if ctx.tier == 'thorough' else [])
    # the root on a remote site, other documents on that site, on another one and in local files
    runs = [(gs, layouts if gs == fe.G_N3_ALL_WF or ctx.tier != 'thorough' else layouts[:3] + ['remoteq'], '') for gs in gensets] + [(fe.G_N3_ALL_WF, ['localfile'] + (['remote', 'sibling', 'subdir', 'parent'] if ctx.tier == 'thorough' else [['remote', 'sibling', 'subdir'][ctx.seed % 3]]), 'http')]
    for gi, (gs, lays, site) in enumerate(runs):
        lay = lays if gs[1] == 2 else [a + '+subdir' for a in lays]
        obsfiles = vlib.run_worker(ctx, 'resolve', fe.gen(ctx, *gs),
                                   ['-layouts', ','.join(lay), '-rots', str(sd['rot']), '-names', 'special', '-spell', 'varied', '-site', site],
                                   prefix='res%d' % gi)
        for o, v in vlib.run_oracle(ctx, 'ResOracle', obsfiles, lazy=True):
            rep.evaluations += 1
            if o['outcome'] == 'harness-error':
                raise Broken('resolve harness: ' + o['err'])
            if not v['aimok']:
                raise Broken('generator and RefGraph!Designates disagree on %s (model error): %s' % (o['refs'], o['concrete'][:2]))
            rep.nontrivial.add(hashlib.sha1(json.dumps([o['abstract'], o['layout'], o['refs'], o['mode'], o['api']]).encode()).digest()[:8])
            for pn in ('c05val', 'c05err', 'c05root', 'c05total', 'c05items'):
                rep.count(pn + ':' + v[pn])
                if v[pn] == 'fail':
                    rep.fail(pn, {'family': 'resolve', 'abstract': o['abstract'], 'layout': o['layout'], 'rot': o['rot'], 'names': o['names'],
                                  'spell': o['spell'], 'site': o.get('site') or '', 'mode': o['mode'], 'api': o['api'], 'kind': o['kind'], 'refs': o['refs'],
                                  'outcome': o['outcome'], 'err': o['err'], 'result': o['resjson'], 'documents': o['concrete'], 'docurls': o['docurls']}, [],
                             'mode=%s api=%s kind=%s $ref=%s outcome=%s err=%s result=%s docs=%s' % (
                                 o['mode'], o['api'], o['kind'], o['refs'], o['outcome'], o['err'][:60], o['resjson'][:80], o['concrete'][:2]))
            if len(rep.samples) < 5 and v['c05val'] == 'pass' and len(o['docurls']) > 1 and o['mode'] == 'location':
                rep.samples.append({'ref': o['refs'], 'mode': o['mode'], 'api': o['api'], 'result': o['resjson'], 'documents': o['concrete']})
        # millions of observations: the files of a run are dropped as soon as it is judged
        if not os.environ.get('VERIF_KEEP'):
            for f in obsfiles:
                for g in (f, f + '.slim', f.replace('_obs.', '_ver.')):
                    if os.path.exists(g):
                        os.remove(g)
    return rep.finish(
        'model_checking',
        '(a) PtrCases.tla: every member name of length <= %d over {x / ~ 0 1 %% # ? space {} plus the PctWords (a literal "%%" followed by two hex digits, with the twins a second percent-decoding would yield); TLC checks that RFC 6901 decoding '
        'inverts encoding (and that the naive replacement order does not) and exports the fragment text; every name is used in '
        'definitions, nested properties, parameters, responses and paths of the root and of a sibling document and resolved '
        'through Resolve{Ref,Parameter,Response,PathItem}WithBase with the root typed / generic / by location. '
        '(b) every node (top-level and nested through every sub-schema keyword) of every enumerated multi-document graph, plus a '
        'missing name per document, a missing document and a pointer through a scalar, referenced from the root with varied '
        'spellings and special names; RefGraph!Designates (Urls!Resolve + pointer lookup on the projected documents) names the '
        'designated node, the result must equal its sub-document normalised through the requested kind; nothing designated => '
        'error; root unchanged. distinct_nontrivial = distinct (document set, reference, mode, api).' % maxlen,
        ['normalisation "decoded into the requested kind" uses the package\'s own codec on the expected sub-document (C01 covers the codec)',
         'ResolveItems is exercised only through the items of generated parameters in the thorough tier'],
        exhaustive=True)


def replay_resolve(ctx, rec):
    import fam_expander as fe
    vlib.build_worker(ctx)
    c = rec['case']
    f = ctx.path('replay.ndjson')
    if c['family'] == 'ptr':
        o = c['obs']
        open(f, 'w').write(json.dumps({'names': [{'name': o['name'], 'frag': o['frag']}]}) + '\n')
        bad = 0
        for of in vlib.run_worker(ctx, 'ptr', f, [], shards=1, prefix='replay'):
            for l in open(of):
                r = json.loads(l)
                if r['section'] == o['section'] and r['mode'] == o['mode'] and r['where'] == o['where']:
                    print(l.strip())
                    bad += 0 if r['ok'] else 1
        print('REPRODUCED' if bad else 'NOT-REPRODUCED')
        return 1 if bad else 0
    case = {'case': 1, 'nodes': c['abstract'], 'layout': c['layout'], 'rot': c['rot'], 'entry': 'Resolve', 'names': c['names'], 'spell': c['spell'],
            'site': c.get('site') or ''}
    open(f, 'w').write(json.dumps(case) + '\n')
    obsfiles = vlib.run_worker(ctx, 'resolve', f, [], shards=1, prefix='replay')
    bad = 0
    for o, v in vlib.run_oracle(ctx, 'ResOracle', obsfiles, lazy=True):
        if o['refs'] == c['refs'] and o['mode'] == c['mode'] and o['api'] == c['api']:
            print(json.dumps({'ref': o['refs'], 'mode': o['mode'], 'outcome': o['outcome'], 'err': o['err'], 'result': o['resjson'], 'verdict': v}))
            if rec['predicate'] in v and v[rec['predicate']] == 'fail':
                bad += 1
    print('REPRODUCED' if bad else 'NOT-REPRODUCED')
    return 1 if bad else 0


CHECKS['C05'] = check_c05
REPLAY['resolve'] = replay_resolve
REPLAY['ptr'] = replay_resolve
