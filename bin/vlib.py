"""Shared machinery of the /verif checks: scratch dirs, worker build, TLC runs, sharding,
known findings, evidence files.  Standard library only."""
import hashlib
import json
import os
import re
import shutil
import subprocess
import sys
import tempfile
import time
from concurrent.futures import ThreadPoolExecutor

VERIF = os.path.dirname(os.path.dirname(os.path.abspath(__file__)))
REPO = os.environ.get('VERIF_REPO', '/repo')
SPEC = os.path.join(VERIF, 'spec')
TLA_CP = '/opt/veriftools/tla/tla2tools.jar:/opt/veriftools/tla/CommunityModules-deps.jar'
NCPU = os.cpu_count() or 4

GOENV = dict(os.environ, GOFLAGS='-mod=mod', GOPROXY='off', GOSUMDB='off', GOTOOLCHAIN='local',
             CGO_ENABLED=os.environ.get('CGO_ENABLED', '0'))


class Broken(Exception):
    """The check itself is broken (exit 2): never a violation."""


class Ctx:
    def __init__(self, prop, tier, seed):
        self.prop = prop
        self.tier = tier
        self.seed = seed
        self.t0 = time.time()
        self.scratch = tempfile.mkdtemp(prefix='verif-%s-' % prop)
        self.mc = []          # model-checking runs: dicts
        self.notes = []
        self.worker = None

    def path(self, *a):
        return os.path.join(self.scratch, *a)

    def cleanup(self):
        shutil.rmtree(self.scratch, ignore_errors=True)
        # TLC / SANY litter
        for d in os.listdir(tempfile.gettempdir()):
            if d.startswith('tlc-') or d.startswith('sany'):
                p = os.path.join(tempfile.gettempdir(), d)
                try:
                    if time.time() - os.path.getmtime(p) > 3600:
                        shutil.rmtree(p, ignore_errors=True)
                except OSError:
                    pass


def log(*a):
    print(*a, file=sys.stderr, flush=True)


def run(cmd, cwd=None, timeout=None, env=None, check=True, stdin=None):
    p = subprocess.run(cmd, cwd=cwd, timeout=timeout, env=env, stdout=subprocess.PIPE,
                       stderr=subprocess.STDOUT, text=True, input=stdin)
    if check and p.returncode != 0:
        raise Broken('command failed (%d): %s\n%s' % (p.returncode, ' '.join(cmd), p.stdout[-3000:]))
    return p.returncode, p.stdout


def build_worker(ctx, race=False, tags='verif'):
    """Build the worker against /repo's current working tree (replace directive)."""
    out = ctx.path('worker-race' if race else 'worker')
    env = dict(GOENV)
    cmd = ['go', 'build', '-tags', tags, '-o', out]
    if race:
        env['CGO_ENABLED'] = '1'
        cmd.insert(2, '-race')
    cmd.append('./cmd/worker')
    hdir = os.path.join(VERIF, 'harness')
    gosum = os.path.join(hdir, 'go.sum')
    if not os.path.exists(gosum):
        shutil.copy(os.path.join(REPO, 'go.sum'), gosum)
    gomod = open(os.path.join(hdir, 'go.mod')).read()
    if REPO != '/repo':
        # alternative tree (seeded-change testing): build from a scratch copy of the harness
        h2 = ctx.path('harness')
        if not os.path.exists(h2):
            shutil.copytree(hdir, h2)
            open(os.path.join(h2, 'go.mod'), 'w').write(gomod.replace('=> /repo', '=> ' + REPO))
        hdir = h2
    rc, o = run(cmd, cwd=hdir, env=env, timeout=900, check=False)
    if rc != 0:
        raise Broken('worker does not build against %s:\n%s' % (REPO, o[-3000:]))
    if not race:
        ctx.worker = out
    return out


def spec_dir(ctx):
    """Scratch copy of the TLA+ modules (tools litter their working directory)."""
    d = ctx.path('spec')
    if not os.path.exists(d):
        os.makedirs(d)
        for root, _, files in os.walk(SPEC):
            for f in files:
                if f.endswith('.tla'):
                    shutil.copy(os.path.join(root, f), os.path.join(d, f))
    return d


_meta = [0]


def tlc(ctx, module, cfg_text, workers=4, timeout=600, heap='4g', extra=None, name=None, deadlock_off=True):
    """Run TLC on spec/<module>.tla with the given cfg text.  Returns (rc, output)."""
    d = spec_dir(ctx)
    _meta[0] += 1
    name = name or ('%s_%d' % (module, _meta[0]))
    cfg = os.path.join(d, name + '.cfg')
    open(cfg, 'w').write(cfg_text)
    meta = ctx.path('meta_%s' % name)
    if workers <= 2:
        # evaluation-only runs (oracles, generators): one core per JVM so that 16 run side by side
        cmd = ['java', '-Xmx' + heap, '-Xss64m', '-XX:+UseSerialGC', '-XX:TieredStopAtLevel=1', '-Xms512m']
    else:
        cmd = ['java', '-Xmx' + heap, '-Xss64m', '-XX:+UseParallelGC', '-XX:ParallelGCThreads=' + str(min(8, workers))]
    cmd += ['-cp', TLA_CP, 'tlc2.TLC',
           '-workers', str(workers), '-metadir', meta, '-config', cfg]
    if deadlock_off:
        cmd.append('-deadlock')
    if extra:
        cmd += extra
    cmd.append(os.path.join(d, module + '.tla'))
    try:
        rc, out = run(cmd, cwd=d, timeout=timeout, check=False)
    except subprocess.TimeoutExpired:
        raise Broken('TLC timed out after %ss on %s' % (timeout, name))
    finally:
        shutil.rmtree(meta, ignore_errors=True)
    return rc, out


def tlc_stats(out):
    m = re.search(r'(\d+) states generated, (\d+) distinct states found, (\d+) states left', out)
    if not m:
        return None
    return {'generated': int(m.group(1)), 'distinct': int(m.group(2)), 'left': int(m.group(3))}


def model_check(ctx, module, cfg_text, label, workers=8, timeout=900, heap='6g', extra=None):
    """Exhaustive TLC run of a design module; a counterexample or error here is a broken
    model (exit 2), never a violation of the code."""
    t = time.time()
    rc, out = tlc(ctx, module, cfg_text, workers=workers, timeout=timeout, heap=heap, extra=extra, name='MC_' + label)
    st = tlc_stats(out)
    if rc != 0 or st is None or 'No error has been found' not in out:
        raise Broken('model check %s/%s failed (rc=%s):\n%s' % (module, label, rc, out[-4000:]))
    rec = {'module': module, 'config': label, 'states': st['distinct'], 'transitions': st['generated'],
           'wall_s': round(time.time() - t, 1)}
    ctx.mc.append(rec)
    log('[mc] %s %s: %d distinct states, %d transitions, %.1fs' % (module, label, st['distinct'], st['generated'], rec['wall_s']))
    return rec


def spec_hash(*modules):
    h = hashlib.sha1()
    for m in modules:
        h.update(open(os.path.join(SPEC, m + '.tla'), 'rb').read())
    return h.hexdigest()[:12]


def cached_gen(ctx, key, produce):
    """Generated case files depend only on the TLA+ text, not on /repo: cache them."""
    cdir = os.path.join(VERIF, '.cache')
    os.makedirs(cdir, exist_ok=True)
    p = os.path.join(cdir, key + '.ndjson')
    if not os.path.exists(p):
        tmp = produce()
        shutil.move(tmp, p + '.tmp%d' % os.getpid())
        os.replace(p + '.tmp%d' % os.getpid(), p)
    return p


def count_lines(p):
    n = 0
    with open(p, 'rb') as f:
        for _ in f:
            n += 1
    return n


def shard_file(ctx, path, k, prefix):
    """Split an ndjson file round-robin into at most k non-empty shards."""
    lines = open(path, 'rb').read().splitlines(keepends=True)
    k = max(1, min(k, len(lines)))
    outs = []
    for i in range(k):
        p = ctx.path('%s.%d.ndjson' % (prefix, i))
        with open(p, 'wb') as f:
            f.writelines(lines[i::k])
        outs.append(p)
    return outs


def run_worker(ctx, family, infile, args, shards=None, prefix=None, timeout=1800, binary=None):
    """Run the worker over (shards of) a case file in parallel; returns observation files."""
    shards = shards or NCPU
    prefix = prefix or (family + '_%d' % (_meta[0]))
    _meta[0] += 1
    ins = shard_file(ctx, infile, shards, prefix + '_in')
    outs = [p.replace('_in.', '_obs.') for p in ins]
    binary = binary or ctx.worker

    tmpd = ctx.path('tmp')
    os.makedirs(tmpd, exist_ok=True)

    def one(i):
        cmd = [binary, family, '-in', ins[i], '-out', outs[i]] + args
        # private working directories of the children live (and die) with the scratch directory
        rc, o = run(cmd, timeout=timeout, check=False, env=dict(os.environ, VERIF_SEED=str(ctx.seed), TMPDIR=tmpd))
        if rc != 0:
            raise Broken('worker %s failed (rc=%d): %s' % (family, rc, o[-2000:]))
        return outs[i]
    t = time.time()
    with ThreadPoolExecutor(max_workers=NCPU) as ex:
        res = list(ex.map(one, range(len(ins))))
    log('[worker] %s: %d shards, %.1fs' % (family, len(ins), time.time() - t))
    return res


def run_oracle(ctx, module, obsfiles, consts=None, timeout=1200, heap='3g', cfg_names=('ObsFile', 'VerdictFile'), lazy=False):
    """Evaluate the property predicates of a TLA+ oracle module on observation files, one TLC
    process per file, in parallel.  Returns the list of (observation, verdict) pairs; with lazy=True an
    iterator that reads them file by file (millions of observations do not fit in memory at once)."""
    consts = consts or {}

    def one(i):
        vf = obsfiles[i].replace('_obs.', '_ver.')
        if vf == obsfiles[i]:
            vf = obsfiles[i] + '.ver'
        if os.path.getsize(obsfiles[i]) == 0:
            return []
        slim = obsfiles[i] + '.slim'
        cfg = 'CONSTANTS\n%s = "%s"\n%s = "%s"\n' % (cfg_names[0], slim if os.path.exists(slim) else obsfiles[i], cfg_names[1], vf)
        for k, v in consts.items():
            cfg += '%s = %s\n' % (k, v)
        cfg += 'INIT Init\nNEXT Next\n'
        rc, out = tlc(ctx, module, cfg, workers=1, timeout=timeout, heap=heap, name='%s_or%d_%d' % (module, _meta[0], i))
        if rc != 0 or not os.path.exists(vf):
            raise Broken('oracle %s failed on %s:\n%s' % (module, obsfiles[i], out[-3000:]))
        if lazy:
            return (obsfiles[i], vf)
        obs = [json.loads(l) for l in open(obsfiles[i])]
        ver = [json.loads(l) for l in open(vf)]
        if len(obs) != len(ver):
            raise Broken('oracle %s: %d observations but %d verdicts' % (module, len(obs), len(ver)))
        return list(zip(obs, ver))
    _meta[0] += 1
    t = time.time()
    with ThreadPoolExecutor(max_workers=NCPU) as ex:
        res = list(ex.map(one, range(len(obsfiles))))
    log('[oracle] %s: %d files, %.1fs' % (module, len(obsfiles), time.time() - t))
    if lazy:
        def gen():
            for r in res:
                if not r:
                    continue
                n = 0
                with open(r[0]) as fo, open(r[1]) as fv:
                    for lo, lv in zip(fo, fv):
                        n += 1
                        yield json.loads(lo), json.loads(lv)
                if n != count_lines(r[0]) or n != count_lines(r[1]):
                    raise Broken('oracle %s: observation and verdict counts differ for %s' % (module, r[0]))
        return gen()
    return [p for r in res for p in r]


# ------------------------------------------------------------------ findings / evidence
def load_findings():
    p = os.path.join(VERIF, 'known_findings.json')
    if not os.path.exists(p):
        return []
    return json.load(open(p)).get('findings', [])


class Report:
    """Collects failures of one property, separates known findings from violations."""

    def __init__(self, ctx):
        self.ctx = ctx
        self.findings = [f for f in load_findings() if ctx.prop in f.get('properties', [f.get('property')])]
        self.open = {f['id']: f for f in self.findings if f.get('status', 'open') == 'open'}
        self.hit = {}          # finding id -> count
        self.violations = []   # (pred, replay path, brief)
        self.evaluations = 0
        self.nontrivial = set()
        self.samples = []
        self.counts = {}

    def count(self, key, n=1):
        self.counts[key] = self.counts.get(key, 0) + n

    def fail(self, pred, case_obj, kf_ids, brief):
        """A property predicate is false on a real observation."""
        listed = [k for k in kf_ids if k in self.open]
        if listed:
            for k in listed[:1]:
                self.hit[k] = self.hit.get(k, 0) + 1
            return
        d = os.path.join(os.environ.get('VERIF_OUT_DIR', os.path.join(VERIF, 'out')), 'violations', self.ctx.prop)
        os.makedirs(d, exist_ok=True)
        h = hashlib.sha1(json.dumps(case_obj, sort_keys=True).encode()).hexdigest()[:10]
        p = os.path.join(d, '%s_%s.json' % (pred, h))
        if len(self.violations) < 50:
            json.dump({'property': self.ctx.prop, 'predicate': pred, 'brief': brief, 'case': case_obj}, open(p, 'w'), indent=1)
        self.violations.append((pred, p, brief))

    def finish(self, level, rule, assumptions, extra_cov=None, exhaustive=False):
        ctx = self.ctx
        for k, n in sorted(self.hit.items()):
            print('KNOWN-FINDING: property=%s %s: %s (%d cases)' % (ctx.prop, k, self.open[k]['what'], n))
        stale = [k for k in self.open if k not in self.hit]
        shown = set()
        for pred, p, brief in self.violations:
            if len(shown) < 10:
                print('VIOLATION property=%s replay=%s  # %s: %s' % (ctx.prop, p, pred, brief))
                shown.add(p)
        cov = {
            'states': sum(m['states'] for m in ctx.mc),
            'transitions': sum(m['transitions'] for m in ctx.mc),
            'traces_validated_against_impl': self.evaluations,
            'evaluations': self.evaluations,
            'distinct_nontrivial': len(self.nontrivial),
            'rule': rule,
            'samples': self.samples[:5] or [{'note': 'no observation matched the sampling filter of this check', 'counts': self.counts}],
            'model_checking_runs': ctx.mc,
            'counts': self.counts,
            'known_findings_hit': self.hit,
            'stale_findings': stale,
            'exhaustive': exhaustive,
        }
        if extra_cov:
            cov.update(extra_cov)
        ev = {
            'property_id': ctx.prop, 'tier': ctx.tier, 'seed': ctx.seed, 'level': level,
            'coverage': cov, 'assumptions': assumptions + ctx.notes,
            'wall_s': round(time.time() - ctx.t0, 1), 'violations': len(self.violations),
        }
        evdir = os.environ.get('VERIF_EVIDENCE_DIR', os.path.join(VERIF, 'evidence'))
        os.makedirs(evdir, exist_ok=True)
        json.dump(ev, open(os.path.join(evdir, ctx.prop + '.json'), 'w'), indent=1)
        log('[%s %s] %d observations judged, %d violations, %d known-finding cases, %.1fs' % (
            ctx.prop, ctx.tier, self.evaluations, len(self.violations), sum(self.hit.values()), time.time() - ctx.t0))
        return 1 if self.violations else 0
