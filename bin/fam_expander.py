"""Expansion family: C02, C03, C04, C08, C09, C10, C18.

Pipeline of one check:
  1. TLC (GenExp.tla / ExpCases.tla) enumerates abstract reference graphs        -> cases
  2. TLC (Expander.tla) model-checks the operational expander model on exactly
     those graphs as initial states, for every map order                          -> design holds
  3. the Go worker concretises every graph (layouts x options x keyword rotation),
     runs the real entry point with a recording PathLoader and the verif hooks on,
     projects input and output back to abstract graphs                            -> observations
  4. TLC (ExpOracle.tla: RefGraph, Urls, ExpTrace, Findings) evaluates the property
     predicates and validates the event trace of every observation                -> verdicts
"""
import hashlib
import json
import os
import shutil

import vlib
from vlib import Broken, log

ALL_KINDS = '{"s","p","r","i"}'

ORDINARY = ['sibling', 'subdir', 'parent', 'otherdir', 'remote', 'remoteq']
COLLIDERS = ['prefixfile', 'prefixdir', 'prefixtop']
ALL_LAYOUTS = ORDINARY + COLLIDERS


def gen(ctx, N, D, kinds, dangling, wfonly):
    key = 'exp_%s_N%d_D%d_%s_%s_%s' % (vlib.spec_hash('ExpCases', 'ExpGraph', 'GenExp'), N, D,
                                       ''.join(c for c in kinds if c.isalpha()), 'dang' if dangling else 'nodang',
                                       'wf' if wfonly else 'any')

    def produce():
        out = ctx.path(key + '.ndjson')
        cfg = ('CONSTANTS\nN = %d\nD = %d\nKinds = %s\nDangling = %s\nWFOnly = %s\nOutFile = "%s"\nINIT Init\nNEXT Next\n'
               % (N, D, kinds, 'TRUE' if dangling else 'FALSE', 'TRUE' if wfonly else 'FALSE', out))
        rc, o = vlib.tlc(ctx, 'GenExp', cfg, workers=1, timeout=3000, heap='8g', name='Gen_' + key)
        if rc != 0 or not os.path.exists(out):
            raise Broken('case enumeration failed:\n' + o[-3000:])
        return out
    return vlib.cached_gen(ctx, key, produce)


# (N, D, kinds, dangling, wfonly)
G_N3_ALL_WF = (3, 2, ALL_KINDS, False, True)
G_N4_S_WF = (4, 2, '{"s"}', False, True)
G_N3_ALL_ANY = (3, 2, ALL_KINDS, True, False)
G_N3_D3_WF = (3, 3, ALL_KINDS, False, True)
G_N4_SP_WF = (4, 2, '{"s","p"}', False, True)
G_N4_SR_WF = (4, 2, '{"s","r"}', False, True)
G_N2_ALL_ANY = (2, 2, ALL_KINDS, True, False)
G_N4_IP_WF = (4, 2, '{"i","p"}', False, True)
G_N4_IR_WF = (4, 2, '{"i","r"}', False, True)
ALL_GEN = [G_N3_ALL_WF, G_N4_S_WF, G_N3_ALL_ANY, G_N2_ALL_ANY, G_N4_IP_WF, G_N4_IR_WF, G_N4_SP_WF, G_N4_SR_WF, G_N3_D3_WF]


def pregen(ctx, thorough=False):
    for a in (ALL_GEN if thorough else ALL_GEN[:8]):
        p = gen(ctx, *a)
        log('[setup] %s: %d cases' % (os.path.basename(p), vlib.count_lines(p)))


INVARIANTS = ('C03_OnlyCutPoints C03_AcyclicRefFree MemoSound C04_Depth C04_Parents C04_Work '
              'C08_StrictNoSilent C08_NoSpurious C08_ContinueOk C18_AtMostOnce C09_NoSchemaFollow')


def mc_expander(ctx, casefile, cont, skip, label, liveness=True):
    cfg = ('CONSTANTS\nCont = %s\nSkip = %s\nCaseFile = "%s"\nSPECIFICATION Spec\nINVARIANTS %s\n'
           % ('TRUE' if cont else 'FALSE', 'TRUE' if skip else 'FALSE', casefile, INVARIANTS))
    if liveness:
        cfg += 'PROPERTY C04_Terminates\n'
    return vlib.model_check(ctx, 'Expander', cfg, label)


class Batch:
    def __init__(self, genset, layouts, opts, rots, failsets=('none',), reps=2, names='plain', spell='simple', entry='ExpandSpec',
                 caches='none', ids='', watchdog='8s', oddtargets=False, allfaults=False, site=''):
        self.genset, self.layouts, self.opts, self.rots = genset, layouts, opts, rots
        self.failsets, self.reps, self.names, self.spell, self.entry = failsets, reps, names, spell, entry
        self.caches = caches
        self.ids, self.watchdog, self.oddtargets, self.allfaults = ids, watchdog, oddtargets, allfaults
        self.site = site


def chain_graphs(ctx, k):
    """Acyclic reference chains of k links (pure references; structures each holding the next reference)."""
    out = ctx.path('chain_%d.ndjson' % k)
    if os.path.exists(out):
        return out
    shards = ctx.path('chain_shards.ndjson')
    open(shards, 'w').write(json.dumps({'shard': 0}) + '\n')
    files = vlib.run_worker(ctx, 'randgraph', shards, ['-chain', str(k)], shards=1, prefix='chain%d' % k)
    shutil.copy(files[0], out)
    return out


def random_graphs(ctx, n, docs, count, dangling=False):
    """Seeded random graphs larger than TLC enumerates (same format, judged by the same oracle)."""
    out = ctx.path('rand_n%d_d%d_c%d_%s.ndjson' % (n, docs, count, 'dang' if dangling else 'wf'))
    if os.path.exists(out):
        return out
    shards = ctx.path('rand_shards.ndjson')
    k = 8
    open(shards, 'w').write(''.join(json.dumps({'shard': i}) + '\n' for i in range(k)))
    args = ['-n', str(n), '-docs', str(docs), '-count', str((count + k - 1) // k), '-seed', str(ctx.seed)]
    if dangling:
        args += ['-dangling', '-wf=false']
    files = vlib.run_worker(ctx, 'randgraph', shards, args, shards=k, prefix='randgen_n%d' % n)
    with open(out, 'w') as w:
        for f in files:
            w.write(open(f).read())
    return out


def observe(ctx, batches):
    """Run the real code over all batches; returns observation files."""
    obsfiles = []
    for i, b in enumerate(batches):
        if b.genset[0] == 'chain':
            cases = chain_graphs(ctx, b.genset[1])
        else:
            cases = random_graphs(ctx, *b.genset[1:]) if b.genset[0] == 'random' else gen(ctx, *b.genset)
        args = ['-layouts', ','.join(b.layouts), '-opts', ','.join(b.opts), '-rots', ','.join(str(r) for r in b.rots),
                '-names', b.names, '-spell', b.spell, '-reps', str(b.reps), '-failsets', ','.join(b.failsets),
                '-entry', b.entry, '-caches', b.caches, '-watchdog', b.watchdog]
        if b.ids:
            args += ['-ids', b.ids]
        if getattr(b, 'idsnamed', False):
            args += ['-idsnamed']
        if getattr(b, 'wholedocs', False):
            args += ['-wholedocs']
        if getattr(b, 'handbuilt', False):
            args += ['-handbuilt']
        if getattr(b, 'mirror', False):
            args += ['-mirror']
        if getattr(b, 'gadgets', False):
            args += ['-gadgets']
        if getattr(b, 'staleroot', False):
            args += ['-staleroot']
        if b.oddtargets:
            args += ['-oddtargets']
        if b.allfaults:
            args += ['-allfaults']
        if b.site:
            args += ['-site', b.site]
        obsfiles += vlib.run_worker(ctx, 'expander', cases, args, prefix='exp%d' % i)
    # one oracle process per core: merge the per-batch shards
    k = vlib.NCPU
    merged = [ctx.path('merged_%d_obs.%d.ndjson' % (vlib._meta[0], j)) for j in range(min(k, len(obsfiles)))]
    vlib._meta[0] += 1
    outs = [(open(m, 'wb'), open(m + '.slim', 'wb')) for m in merged]
    sizes = [0] * len(merged)
    for f in sorted(obsfiles, key=lambda x: -os.path.getsize(x)):
        j = sizes.index(min(sizes))
        sizes[j] += os.path.getsize(f)
        with open(f, 'rb') as r:
            shutil.copyfileobj(r, outs[j][0])
        with open(f + '.slim', 'rb') as r:
            shutil.copyfileobj(r, outs[j][1])
        os.remove(f)
        os.remove(f + '.slim')
    for a, b in outs:
        a.close()
        b.close()
    return [m for m in merged if os.path.getsize(m) > 0]


ALL_PREDS = ['c02', 'c03cut', 'c03free', 'c03det', 'c03form', 'c04', 'c04work', 'conf', 'c18step', 'c08noerr', 'c08err', 'c08contok',
             'c08contbisim', 'c08contcut', 'c09keep', 'c09defs', 'c09form', 'c09then', 'c10root', 'c10opts', 'c18never', 'c18once', 'c18key']


def judge(ctx, obsfiles, preds=None):
    want = sorted(set(preds or ALL_PREDS) | {'conf'})
    return vlib.run_oracle(ctx, 'ExpOracle', obsfiles, consts={'Preds': '{%s}' % ', '.join('"%s"' % p for p in want)})


def brief(o, v):
    return 'layout=%s rot=%s opts=%s fail=%s outcome=%s err=%s docs=%s' % (
        '+'.join(o['layout']), o['rot'], ''.join('1' if o['opts'][k] else '0' for k in ('skip', 'cont', 'abs')),
        o['failurl'], o['outcome'], o['err'][:80], o['concrete'][:3])


def replay_obj(o, v):
    return {'family': 'expander', 'case': o['case'], 'names': o.get('names'), 'spell': o.get('spell'), 'reps': o.get('reps'),
            'cache': o.get('cache'), 'elem': o.get('elem'), 'site': o.get('site') or '', 'flags': o.get('flags') or '',
            'abstract': o['abstract'], 'layout': o['layout'], 'rot': o['rot'], 'opts': o['opts'],
            'entry': o['entry'], 'failurl': o['failurl'], 'preload': o['preload'], 'docurls': o['docurls'],
            'concrete': o['concrete'], 'outcome': o['outcome'], 'err': o['err'], 'detail': o.get('detail', ''),
            'verdict': v}


def nontrivial_key(o):
    return json.dumps([o['abstract'], o['layout'], o['opts'], o['rot'], o['failurl'], o['entry']], sort_keys=True)


def seeded(ctx):
    """Seed-dependent concretisation choices."""
    s = ctx.seed
    return {'rot': s % 12, 'names': 'special' if s % 2 == 0 else 'plain', 'spell': 'varied' if s % 3 == 0 else 'simple'}


def confirm_crashes(ctx, pairs, preds=None):
    """A case on which the child process died or hung is run once more, alone, with a generous
    watchdog, before anything is reported (a loaded machine must not raise an alarm)."""
    listed = {f['id'] for f in vlib.load_findings() if f.get('status', 'open') == 'open' and ctx.prop in f.get('properties', [])}
    crashed = [(i, o) for i, (o, v) in enumerate(pairs)
               if o['outcome'] in ('timeout', 'fatal') and not (set(v.get('kf', [])) & listed)]
    if not crashed:
        return pairs
    # confirm a handful; the others are kept only if every one of those crashed again
    rest, crashed = crashed[6:], crashed[:6]
    f = ctx.path('confirm.ndjson')
    with open(f, 'w') as w:
        for i, o in crashed:
            w.write(json.dumps({'case': o['case'], 'nodes': o['abstract'], 'layout': o['layout'], 'rot': o['rot'], 'opts': o['opts'],
                                'entry': o['entry'] or 'ExpandSpec', 'reps': 1, 'failurl': o['failurl'], 'preload': o['preload'],
                                'names': o.get('names') or 'plain', 'spell': o.get('spell') or 'simple', 'cache': o.get('cache') or 'none',
                                'site': o.get('site') or '', 'flags': o.get('flags') or ''}) + '\n')
    entries = sorted(set(o['entry'] or 'ExpandSpec' for i, o in crashed))
    obsfiles = vlib.run_worker(ctx, 'expander', f, ['-watchdog', '30s', '-entry', ','.join(entries)], shards=min(8, len(crashed)), prefix='confirm')
    again = judge(ctx, obsfiles, preds)
    log('[confirm] %d crashed cases re-run alone: %d crash again' % (len(crashed), sum(1 for o, v in again if o['outcome'] in ('timeout', 'fatal'))))
    key = lambda o: json.dumps([o['abstract'], o['layout'], o['rot'], o['opts'], o['entry'], o['failurl']], sort_keys=True)
    redo = {key(o): (o, v) for o, v in again}
    out = list(pairs)
    all_again = True
    for i, o in crashed:
        if key(o) in redo:
            out[i] = redo[key(o)]
            if redo[key(o)][0]['outcome'] not in ('timeout', 'fatal'):
                all_again = False
    if rest and not all_again:
        # not reproducible alone: the unconfirmed ones are dropped from the judgement (never reported)
        drop = {i for i, o in rest}
        out = [p for i, p in enumerate(out) if i not in drop]
        log('[confirm] %d further crashed cases dropped as unconfirmed' % len(rest))
    return out


def run_batches(ctx, batches, preds, mc_runs, nontrivial=lambda o, v: True, sample=lambda o, v: v.get('cyclic'), post=None):
    vlib.build_worker(ctx)
    for (genset, cont, skip, label) in mc_runs:
        # the operational model is checked on the enumerated graphs and on the seeded random ones the real code runs
        casefile = random_graphs(ctx, *genset[1:]) if genset[0] == 'random' else gen(ctx, *genset)
        mc_expander(ctx, casefile, cont, skip, label)
    rep = vlib.Report(ctx)
    drift = 0
    # the thorough tier runs millions of observations: one batch at a time (observe, judge, account, forget)
    chunks = [[b] for b in batches] if ctx.tier == 'thorough' else [batches]
    for chunk in chunks:
        obsfiles = observe(ctx, chunk)
        pairs = confirm_crashes(ctx, judge(ctx, obsfiles, preds), preds)
        for o, v in pairs:
            rep.evaluations += 1
            if o['outcome'] == 'harness-error':
                raise Broken('harness error: %s %s' % (o['detail'], o['concrete'][:2]))
            if nontrivial(o, v):
                rep.nontrivial.add(hashlib.sha1(nontrivial_key(o).encode()).digest()[:8])
            if v.get('conf') == 'fail':
                drift += 1
            for p in preds:
                rep.count(p + ':' + v[p])
                if v[p] == 'fail':
                    rep.fail(p, replay_obj(o, v), v.get('kf', []), brief(o, v))
            if len(rep.samples) < 3 and sample(o, v):
                rep.samples.append({'abstract': o['abstract'], 'layout': o['layout'], 'opts': o['opts'], 'entry': o['entry'],
                                    'cache': o.get('cache'), 'elem': o.get('elem'), 'loads': o.get('loadss'), 'documents': o['concrete'],
                                    'events': o.get('events', [])[:12], 'verdict': {p: v[p] for p in preds}})
        if post:
            post(rep, pairs)
        del pairs
        for f in obsfiles:
            for g in (f, f + '.slim', f.replace('_obs.', '_ver.')):
                if os.path.exists(g) and not os.environ.get('VERIF_KEEP'):
                    os.remove(g)
    rep.counts['operational_drift'] = drift
    if drift:
        log('[drift] %d observations whose event trace is not a behaviour of Expander.tla (not a violation by itself)' % drift)
    return rep


ASSUME = ['the projection (harness/cmd/worker/project.go) reads JSON faithfully; labels are SHA-1 digests of the non-child members',
          'concretisation is sampled per class: one sub-schema keyword / member-name class / $ref spelling per rotation '
          '(seed-dependent), all layout classes',
          'map iteration orders are driven by permuting the member order of the source JSON over the repetitions']


def s1_batches(ctx, opts, skip_collide=False):
    sd = seeded(ctx)
    if ctx.tier == 'thorough':
        lay2 = [a + '+' + b for a in ALL_LAYOUTS for b in ('sibling', 'subdir', 'otherdir')]
        rots = [(sd['rot'] + i) % 12 for i in (0, 3, 6, 9)]
        return [Batch(G_N3_D3_WF, lay2, opts, rots[:2], reps=4, names=sd['names'], spell=sd['spell']),
                Batch(G_N4_S_WF, ALL_LAYOUTS, opts, rots, reps=4, names=sd['names'], spell='varied'),
                Batch(G_N4_SP_WF, ORDINARY[:3] + COLLIDERS[:2], opts, rots[:1], reps=2, names=sd['names'], spell=sd['spell']),
                Batch(G_N4_SR_WF, ORDINARY[:3] + COLLIDERS[:2], opts, rots[1:2], reps=2, names='special', spell=sd['spell']),
                Batch(G_N4_IP_WF, ALL_LAYOUTS, opts, rots[:2], reps=2, names=sd['names'], spell=sd['spell']),
                Batch(G_N4_IR_WF, ALL_LAYOUTS, opts, rots[2:], reps=2, names='special', spell='varied'),
                Batch(('random', 14, 4, 3000), [a + '+' + b + '+' + c for a in ORDINARY[:4] for b in ('subdir', 'prefixdir') for c in ('sibling', 'remote')],
                      opts, rots[:1], reps=2, names=sd['names'], spell='varied'),
                Batch(('random', 24, 5, 600), ['sibling+subdir+parent+otherdir', 'remote+prefixfile+subsub+sibling'], opts, rots[1:2], reps=2,
                      names='special', spell='varied'),
                Batch(G_N4_S_WF, ['sibling', 'remote'], opts, rots[:2], reps=1, names='casetwin', spell='varied'),
                Batch(G_N3_D3_WF, ['casefile+casefile', 'sibling+subdir'], opts, rots[:1], reps=1, names='casetwin'),
                Batch(G_N3_D3_WF, lay2[:9], opts, rots[:1], reps=2, entry='ExpandSpec:nobase,ExpandSpec2:nobase', names=sd['names'], spell=sd['spell']),
                Batch(G_N3_D3_WF, ['localfile+sibling', 'remote+subdir', 'parent+localfile', 'samepath+samepathq', 'samepathq+samepathq'], opts, rots[:1], reps=1, site='http', spell='varied'),
                Batch(G_N3_D3_WF, ['samepath+samepathq', 'samepathq+sibling'], opts, rots[:1], reps=1, names=sd['names'], spell=sd['spell']),
                wholeb(Batch(G_N4_S_WF, ORDINARY, opts, rots[:2], reps=2, names=sd['names'], spell='varied')),
                wholeb(Batch(G_N3_D3_WF, lay2[:9], opts, rots[:1], reps=1, spell=sd['spell'])),
                handb(Batch(G_N4_S_WF, ['sibling', 'subdir'], opts, rots, reps=1)),
                staleb(Batch(G_N3_D3_WF, lay2[:6], opts, rots[:1], reps=1)),
                staleb(Batch(G_N4_IP_WF, ORDINARY[:3], opts, rots[:1], reps=1)),
                staleb(Batch(G_N4_SR_WF, ORDINARY[:3], opts, rots[:1], reps=1)),
                Batch(('chain', 40), ['sibling', 'subdir'], opts, rots[:2], reps=1),
                Batch(('chain', 120), ['sibling'], opts, rots[:1], reps=1),
                Batch(('chain', 40), ['sibling'], opts[:1], rots[:1], reps=1, entry='ExpandSchema:typed,ExpandSchemaWithBasePath,ExpandParameterWithRoot'),
                Batch(G_N3_ALL_WF, ['otherport', 'sibling'], opts, rots[:2], reps=1, site='http', spell='varied')]
    few = [ALL_LAYOUTS[(ctx.seed + i) % len(ALL_LAYOUTS)] for i in (0, 3, 6)]
    other = 'plain' if sd['names'] == 'special' else 'special'
    return [Batch(G_N3_ALL_WF, ALL_LAYOUTS, opts, [sd['rot']], reps=3, names=sd['names'], spell=sd['spell']),
            Batch(G_N4_S_WF, few, opts[:1], [(sd['rot'] + 5) % 12], reps=2, names=other, spell=sd['spell']),
            Batch(G_N4_IP_WF, few[:2], opts[:1], [sd['rot']], reps=1, names=sd['names'], spell=sd['spell']),
            Batch(G_N4_IR_WF, few[1:], opts[:1], [(sd['rot'] + 1) % 12], reps=1, names=other, spell=sd['spell']),
            Batch(('random', 10, 3, 240), [few[0] + '+' + few[1], few[2] + '+sibling'], opts, [(sd['rot'] + 2) % 12], reps=2,
                  names=sd['names'], spell='varied'),
            # names that differ by letter case only; no RelativeBase in the options; the root on a remote site
            Batch(G_N4_S_WF, ['sibling'], opts, [sd['rot']], reps=1, names='casetwin', spell=sd['spell']),
            Batch(G_N3_ALL_WF, ['sibling', 'subdir'], opts, [sd['rot']], reps=1, entry='ExpandSpec:nobase,ExpandSpec2:nobase',
                  names=sd['names'], spell=sd['spell']),
            Batch(G_N3_ALL_WF, ['localfile', 'sibling', 'samepath', 'samepathq', 'otherport'], opts[:1], [sd['rot']], reps=1, site='http', names=other, spell='varied'),
            Batch(G_N3_ALL_WF, ['samepath', 'samepathq'], opts[:1], [sd['rot']], reps=1, names=sd['names'], spell=sd['spell']),
            # documents that ARE a schema, reached by whole-document references ("b1.json", "#")
            wholeb(Batch(G_N4_S_WF, ['sibling', 'subdir'], opts, [sd['rot']], reps=1, names=sd['names'], spell=sd['spell'])),
            wholeb(Batch(G_N3_ALL_WF, ['parent', 'remote'], opts, [(sd['rot'] + 1) % 12], reps=1, spell='varied')),
            # a model assembled by hand rather than decoded (schema unions without the Allows flag); long acyclic chains
            handb(Batch(G_N4_S_WF, ['sibling'], opts[:1], [sd['rot'], (sd['rot'] + 3) % 12, (sd['rot'] + 6) % 12], reps=1)),
            Batch(G_N3_ALL_WF, ['subdir', 'remote'], opts[:1], [sd['rot']], reps=1, names='perdoc', spell='simple'),
            mirrorb(Batch(G_N3_ALL_WF, ['subdir', 'parent'], opts, [sd['rot']], reps=2, names='perdoc', spell='simple')),
            # the specification in memory is newer than what is stored at its location
            staleb(Batch(G_N3_ALL_WF, ['sibling', 'subdir'], opts[:1], [sd['rot']], reps=1, names=sd['names'], spell='simple')),
            staleb(Batch(G_N4_IP_WF if ctx.seed % 2 else G_N4_IR_WF, ['sibling'], opts[:1], [sd['rot']], reps=1)),
            gadgetb(Batch(G_N4_SR_WF if ctx.seed % 2 else G_N4_SP_WF, ['subdir'], opts[:1], [sd['rot']], reps=2, names='perdoc', spell='simple')),
            Batch(('chain', 40), ['sibling'], opts, [sd['rot']], reps=1),
            Batch(('chain', 40), ['sibling'], opts[:1], [sd['rot']], reps=1, entry='ExpandSchema:typed,ExpandSchemaWithBasePath')]


def s1_mc(ctx):
    if ctx.tier == 'thorough':
        return [(G_N3_D3_WF, False, False, 'N3D3_strict_full'), (G_N4_S_WF, False, False, 'N4S_strict_full'),
                (G_N4_SP_WF, False, False, 'N4SP_strict_full'), (('random', 14, 4, 3000), False, False, 'rand14_strict_full'),
                (('random', 24, 5, 600), False, False, 'rand24_strict_full')]
    return [(G_N3_ALL_WF, False, False, 'N3_strict_full'), (G_N4_S_WF, False, False, 'N4S_strict_full'),
            (('random', 10, 3, 240), False, False, 'rand10_strict_full')]


def check_c02(ctx):
    sd = seeded(ctx)
    extra = [Batch(G_N3_D3_WF if ctx.tier == 'thorough' else G_N3_ALL_WF,
                   ['subdir+otherdir', 'parent+sibling', 'remote+subdir'] if ctx.tier == 'thorough' else ['subdir', 'parent', 'otherdir'],
                   ['000'], [sd['rot']], reps=1, entry='ExpandSpec2', names=sd['names'], spell=sd['spell'])]
    rep = run_batches(ctx, s1_batches(ctx, ['000', '001']) + extra, ['c02'], s1_mc(ctx), nontrivial=lambda o, v: v['wf'])
    return rep.finish(
        'model_checking',
        'TLC enumerates every well-founded reference graph within the bounds of the tier (all element kinds N<=3 nodes in 2 '
        '(quick) / 3 (thorough) documents; schema-only and schema+parameter/response graphs N<=4); Expander.tla is model-checked '
        'on exactly these graphs for every map order; each graph is concretised for every document layout class x '
        'AbsoluteCircularRef on/off x seed-rotated sub-schema keyword / name class / $ref spelling, expanded by the real '
        'ExpandSpec and judged by RefGraph!Bisimilar on the projected input/output. distinct_nontrivial = distinct (graph, '
        'layout, options, rotation) tuples with a well-founded graph. Entry ExpandSpec2: the same root expanded twice with the very '
        'same options value (documents in other directories), the second result is judged.',
        ASSUME)


def check_c03(ctx):
    rep = run_batches(ctx, s1_batches(ctx, ['000', '001']), ['c03cut', 'c03free', 'c03det', 'c03form'], s1_mc(ctx),
                      nontrivial=lambda o, v: v['wf'] and v['cyclic'])
    return rep.finish(
        'model_checking',
        'Same enumeration as C02: every cycle topology over the bounded node set (self loops, 2-/3-cycles, nested and '
        'intersecting cycles; entered from definitions, parameters, responses, path items; across documents in every layout '
        'class). Predicates: every kept $ref designates (Urls!Resolve from the root location) an input node on a reference '
        'cycle; acyclic => no $ref left and identical bytes over repetitions with permuted member order; written form per '
        'AbsoluteCircularRef. Model level: C03_OnlyCutPoints, C03_AcyclicRefFree, MemoSound for every map order. '
        'distinct_nontrivial = distinct tuples whose graph has a reference cycle.',
        ASSUME)


RELBASE_ENTRIES = 'ExpandParameter:relbase,ExpandResponse:relbase'
FOREIGN_CACHES = 'foreignempty,foreignsuper'


def check_c04(ctx):
    sd = seeded(ctx)
    four = ['000', '010', '100', '110']
    if ctx.tier == 'thorough':
        batches = [Batch(G_N3_ALL_ANY, ORDINARY[:3] + COLLIDERS[:2], four, [sd['rot'], (sd['rot'] + 4) % 12], failsets=('none', '1'),
                         reps=1, names=sd['names'], spell='varied'),
                   Batch(G_N4_S_WF, ALL_LAYOUTS, four, [sd['rot']], reps=1, names='special', spell=sd['spell']),
                   Batch(G_N3_D3_WF, ['sibling+subdir', 'parent+prefixdir'], four, [sd['rot']], reps=1),
                   Batch(G_N3_ALL_WF, ['sibling', 'subdir', 'remote'], four, [0, 1, 2, 3], reps=1, ids='abs,relfile,frag,reldir,absodd,badpct,badhost,colon', watchdog='4s'),
                   Batch(('random', 16, 4, 4000, True), ['sibling+subdir+parent', 'remote+prefixdir+otherdir'], four, [sd['rot']], reps=1, spell='varied'),
                   Batch(('random', 40, 6, 500, True), ['sibling+subdir+parent+otherdir+remote'], four, [sd['rot']], reps=1, names='special', spell='varied'),
                   Batch(G_N3_ALL_ANY, ['sibling', 'subdir'], four, [0, 1], reps=1, oddtargets=True),
                   Batch(G_N4_S_WF, ['sibling'], ['000'], [sd['rot'] % 3], reps=1, ids='abs,relfile,frag', watchdog='4s'),
                   Batch(G_N3_ALL_WF, ['sibling', 'subdir'], ['000'], [sd['rot']], reps=1, entry=RELBASE_ENTRIES),
                   Batch(G_N4_SP_WF, ['sibling', 'subdir'], ['000'], [sd['rot']], reps=1, entry='ExpandParameter:relbase'),
                   Batch(G_N4_SR_WF, ['sibling', 'subdir'], ['000'], [sd['rot']], reps=1, entry='ExpandResponse:relbase'),
                   Batch(G_N3_ALL_ANY, ['sibling', 'subdir'], four, [sd['rot']], reps=1, entry='ExpandSpec:nobase')]
        mcs = [(G_N3_ALL_ANY, False, False, 'any_strict_full'), (G_N3_ALL_ANY, True, False, 'any_cont_full'),
               (G_N3_ALL_ANY, False, True, 'any_strict_skip'), (G_N3_ALL_ANY, True, True, 'any_cont_skip'),
               (G_N4_S_WF, False, False, 'N4S_strict_full')]
    else:
        batches = [Batch(G_N3_ALL_ANY, [ALL_LAYOUTS[ctx.seed % len(ALL_LAYOUTS)]], four, [sd['rot']], failsets=('none',),
                         reps=1, names=sd['names'], spell=sd['spell']),
                   Batch(G_N4_S_WF, [ALL_LAYOUTS[(ctx.seed + 3) % len(ALL_LAYOUTS)]], ['000', '110'], [sd['rot']], reps=1),
                   Batch(G_N3_ALL_WF, ['sibling'], ['000', '010'], sorted({ctx.seed % 4, 3}), reps=1, ids='abs,relfile,frag,reldir', watchdog='4s'),
                   Batch(G_N3_ALL_WF, ['sibling', 'remote'], ['000', '110'], [sd['rot'], (sd['rot'] + 1) % 12], reps=1, ids='absodd,badpct,badhost,colon', watchdog='4s'),
                   Batch(('random', 14, 3, 300, True), ['sibling+subdir', 'parent+remote'], four, [sd['rot']], reps=1, spell='varied'),
                   Batch(G_N3_ALL_ANY, ['sibling'], ['000', '010'], [sd['rot']], reps=1, oddtargets=True),
                   Batch(G_N3_ALL_WF, ['sibling'], ['000'], [sd['rot']], reps=1, entry=RELBASE_ENTRIES),
                   # member names that need escaping in a pointer and in a URL, whatever the seed
                   Batch(G_N3_ALL_WF, ['sibling', 'subdir'], ['000', '010'], [sd['rot']], reps=1, names='special', spell='varied'),
                   # one unresolvable ref per graph, in every fault class (typed root: pointers through unions)
                   Batch(G_N2_ALL_ANY, ['sibling'], four, [sd['rot']], reps=1, allfaults=True),
                   Batch(G_N4_SP_WF if ctx.seed % 2 else G_N4_SR_WF, ['sibling'], ['000'], [sd['rot']], reps=1,
                         entry='ExpandParameter:relbase' if ctx.seed % 2 else 'ExpandResponse:relbase', watchdog='4s')]
        mcs = [(G_N3_ALL_ANY, False, False, 'any_strict_full'), (G_N3_ALL_ANY, True, True, 'any_cont_skip'),
               (G_N4_S_WF, False, False, 'N4S_strict_full'), (('random', 14, 3, 300, True), False, False, 'rand14_strict_full')]
    if ctx.tier == 'thorough':
        mcs += [(('random', 16, 4, 400, True), False, False, 'rand16_strict_full'), (('random', 40, 6, 20, True), True, False, 'rand40_cont_full')]
    rep = run_batches(ctx, batches, ['c04', 'c04work'], mcs, nontrivial=lambda o, v: v['cyclic'] or not v['wf'],
                      sample=lambda o, v: not v['wf'])
    # the pool of single-schema calls (self references through an id in unusual spelling, refused / undecodable / null
    # documents ...), alone and in sequences: a call that kills or hangs the process is reported as a failed step
    cache_sequences(ctx, rep)
    return rep.finish(
        'model_checking',
        'TLC enumerates EVERY reference graph over N<=3 nodes of all element kinds (including pure $ref cycles among '
        'parameters/responses/path items, dangling and ill-typed targets) and every schema graph over N<=4; Expander.tla is '
        'checked for termination (liveness under weak fairness), recursion-depth and work bounds on them, in all four '
        'SkipSchemas x ContinueOnError modes. Each graph is run through the real ExpandSpec in an isolated, watchdogged child '
        'process (8 s where <1 ms is normal); predicates: outcome in {ok, error} (no panic, fatal error, hang) and number of '
        'recorded cycle tests <= 4 * UnfoldSize + 16 with UnfoldSize computed by RefGraph!UnfoldSz on the projected input. '
        'distinct_nontrivial = distinct tuples whose graph is cyclic or ill-formed.',
        ASSUME + ['schemas carrying id (absolute, relative file, relative directory, fragment - in rotation over the structured schemas) are exercised by a separate batch; Expander.tla does not model id scopes',
                  'a case on which the child died or hung is re-run alone with a 30 s watchdog before it is reported'])


def check_c08(ctx):
    sd = seeded(ctx)
    preds = ['c08noerr', 'c08err', 'c08contok', 'c08contbisim', 'c08contcut']
    modes = ['000', '010', '100', '110']
    if ctx.tier == 'thorough':
        batches = [Batch(G_N3_ALL_ANY, ALL_LAYOUTS, modes, [sd['rot']], failsets=('none', '1'),
                         reps=1, names=sd['names'], spell=sd['spell']),
                   Batch(G_N3_ALL_ANY, ['sibling', 'subdir', 'remote'], modes, [(sd['rot'] + 1) % 12, (sd['rot'] + 2) % 12], failsets=('none',),
                         reps=1, names=sd['names'], spell=sd['spell'], allfaults=True),
                   Batch(G_N3_D3_WF, ['sibling+subdir', 'parent+otherdir', 'remote+sibling'], modes, [sd['rot']],
                         failsets=('none', '1', '2', '1+2'), reps=1),
                   Batch(G_N4_S_WF, ALL_LAYOUTS, ['000', '010'], [sd['rot']], failsets=('none', '1'), reps=1),
                   Batch(G_N3_ALL_ANY, ['sibling', 'subdir', 'remote'], modes, [sd['rot']], failsets=('none', '1'), reps=1,
                         entry='ExpandSpec:nobase', allfaults=True),
                   Batch(G_N3_ALL_ANY, ['sibling', 'subdir'], ['000'], [sd['rot']], reps=1, entry='ExpandSchema:typed,ExpandSchema:generic',
                         caches=FOREIGN_CACHES, allfaults=True),
                   Batch(('random', 9, 3, 4000, True), ['sibling+subdir', 'parent+remote', 'otherdir+sibling'], modes, [sd['rot']], reps=1, spell='varied'),
                   Batch(('random', 16, 4, 1000, True), ['sibling+subdir+parent'], modes, [sd['rot']], reps=1, names='special')]
        mcs = [(G_N3_ALL_ANY, False, False, 'any_strict_full'), (G_N3_ALL_ANY, True, False, 'any_cont_full'),
               (G_N3_ALL_ANY, False, True, 'any_strict_skip'), (G_N3_ALL_ANY, True, True, 'any_cont_skip')]
    else:
        batches = [Batch(G_N3_ALL_ANY, [ALL_LAYOUTS[ctx.seed % len(ALL_LAYOUTS)]], modes, [sd['rot']], failsets=('none',),
                         reps=1, names=sd['names'], spell=sd['spell'], allfaults=True),
                   Batch(G_N3_ALL_WF, ALL_LAYOUTS, ['000', '010'], [(sd['rot'] + 1) % 12], failsets=('none', '1'), reps=1),
                   Batch(G_N4_IP_WF, [ALL_LAYOUTS[(ctx.seed + 2) % len(ALL_LAYOUTS)]], ['000', '010'], [sd['rot']], reps=1),
                   Batch(G_N4_IR_WF, [ALL_LAYOUTS[(ctx.seed + 5) % len(ALL_LAYOUTS)]], ['000', '100'], [sd['rot']], reps=1),
                   # options without a RelativeBase; a caller cache that served another root before
                   Batch(G_N3_ALL_ANY, ['sibling'], ['000', '010'], [sd['rot']], reps=1, entry='ExpandSpec:nobase'),
                   Batch(G_N3_ALL_ANY, ['sibling'], ['000'], [sd['rot']], reps=1, entry='ExpandSchema:typed,ExpandSchema:generic',
                         caches=FOREIGN_CACHES),
                   # larger graphs (seeded random): several unresolvable and resolvable refs side by side, in other documents too
                   Batch(('random', 9, 3, 400, True), ['sibling+subdir', 'parent+remote'], modes, [sd['rot']], reps=1, spell=sd['spell'])]
        mcs = [(G_N3_ALL_ANY, False, False, 'any_strict_full'), (G_N3_ALL_ANY, True, False, 'any_cont_full'),
               (('random', 9, 3, 400, True), True, False, 'rand9_cont_full'), (('random', 9, 3, 400, True), False, False, 'rand9_strict_full')]
    if ctx.tier == 'thorough':
        mcs += [(('random', 9, 3, 4000, True), True, False, 'rand9k_cont_full'), (('random', 16, 4, 400, True), False, False, 'rand16_strict_full')]
    rep = run_batches(ctx, batches, preds, mcs, nontrivial=lambda o, v: v['nbad'] > 0 or len(o['failurl']) > 0,
                      sample=lambda o, v: v['nbad'] > 0)
    # sequences of calls through one caller cache (refused and undecodable documents among them): an error is an error every time
    cache_sequences(ctx, rep)
    return rep.finish(
        'model_checking',
        'TLC enumerates every reference graph over N<=3 nodes with any subset of $ref targets removed (dangling refs; the worker '
        'gives a single unresolvable ref every fault class and rotates it otherwise: missing document, missing pointer, a name that differs '
        'from an element being expanded by letter case only, target that is a string / number / boolean / array), '
        'combined with loader refusal of every subset of the external documents, ContinueOnError x SkipSchemas on/off. '
        'Predicates (ExpOracle.tla): strict => (error <=> some $ref the call has to follow designates nothing); continue => no '
        'error, every entry that does not depend on an unresolvable parameter/response/path-item ref is bisimilar to the input '
        'with unresolvable schema refs as opaque leaves written or resolving as before, and no resolvable off-cycle $ref is left. '
        'Model level: C08_StrictNoSilent, C08_NoSpurious, C08_ContinueOk on Expander.tla. distinct_nontrivial = distinct tuples '
        'with at least one unresolvable followed ref or refused document.',
        ASSUME)


def idb(b):
    b.idsnamed = True
    return b


def wholeb(b):
    b.wholedocs = True
    return b


def handb(b):
    b.handbuilt = True
    return b


def mirrorb(b):
    b.mirror = True
    return b


def gadgetb(b):
    b.gadgets = True
    return b


def staleb(b):
    b.staleroot = True
    return b


def check_c09(ctx):
    sd = seeded(ctx)
    preds = ['c09keep', 'c09defs', 'c09form', 'c02', 'c09then', 'c03cut']
    if ctx.tier == 'thorough':
        batches = [Batch(G_N3_D3_WF, [a + '+' + b for a in ALL_LAYOUTS for b in ('sibling', 'parent')], ['100', '101'],
                         [sd['rot'], (sd['rot'] + 6) % 12], reps=2, names=sd['names'], spell=sd['spell']),
                   Batch(G_N4_SP_WF, ALL_LAYOUTS, ['100'], [sd['rot']], reps=1, names='special', spell='varied'),
                   Batch(G_N4_SR_WF, ALL_LAYOUTS, ['100'], [sd['rot']], reps=1),
                   Batch(G_N3_D3_WF, ['sibling+subdir', 'parent+otherdir', 'remote+prefixdir'], ['000'], [sd['rot']], reps=1,
                         entry='SkipThenFull'),
                   Batch(G_N4_SP_WF, ORDINARY, ['000'], [sd['rot']], reps=1, entry='SkipThenFull')]
        mcs = [(G_N3_D3_WF, False, True, 'N3D3_strict_skip'), (G_N4_SP_WF, False, True, 'N4SP_strict_skip')]
    else:
        batches = [Batch(G_N3_ALL_WF, ALL_LAYOUTS, ['100', '101'], [sd['rot']], reps=1, names=sd['names'], spell=sd['spell']),
                   Batch(G_N3_ALL_WF, ALL_LAYOUTS, ['000'], [sd['rot']], reps=1, names=sd['names'], spell=sd['spell'],
                         entry='SkipThenFull'),
                   # the same reference text in several documents, meaning another element in each
                   Batch(G_N3_ALL_WF, ['subdir', 'otherdir', 'sibling'], ['100', '000'], [sd['rot']], reps=1, names='perdoc', spell='simple'),
                   # ... every graph doubled by its mirror image in the other document (same names, same reference texts)
                   mirrorb(Batch(G_N3_ALL_WF, ['subdir', 'otherdir'], ['100', '000'], [sd['rot']], reps=1, names='perdoc', spell='simple')),
                   # ... and every 4-node parameter / response graph next to small root structures that reuse its names
                   gadgetb(Batch(G_N4_SR_WF if ctx.seed % 2 else G_N4_SP_WF, ['subdir'], ['100'], [sd['rot']], reps=1, names='perdoc', spell='simple')),
                   # parameters / responses with nested schemas (4 nodes): every sub-schema keyword, definitions included
                   Batch(G_N4_SP_WF if ctx.seed % 2 else G_N4_SR_WF, ['subdir', 'parent'], ['100'], [sd['rot'], (sd['rot'] + 3) % 12, (sd['rot'] + 6) % 12],
                         reps=1, names=sd['names'], spell=sd['spell'])]
        mcs = [(G_N3_ALL_WF, False, True, 'N3_strict_skip')]
    rep = run_batches(ctx, batches, preds, mcs,
                      nontrivial=lambda o, v: v['wf'] and any(n['kind'] != 's' for n in o['abstract']),
                      sample=lambda o, v: o['opts']['skip'] and any(n['kind'] != 's' and n['t'] == 'ref' for n in o['abstract']))
    # schemas that carry a relative id (a file next to their document): the references below them still designate what
    # they designated.  The graphs name their own document instead of writing "#/..." (below an id that means the id's
    # document), and the library rightly answers in kind: the written-form predicates are not applied here.
    idbatches = [idb(Batch(G_N3_ALL_WF, ORDINARY if ctx.tier == 'thorough' else ['subdir', 'otherdir', 'sibling'], ['100', '000'],
                           [sd['rot'], (sd['rot'] + 5) % 12], reps=1, ids='relfile', spell='varied')),
                 # ... below a parameter / response imported from another directory (4 nodes)
                 idb(Batch(G_N4_SP_WF if ctx.seed % 2 else G_N4_SR_WF, ORDINARY[:4] if ctx.tier == 'thorough' else ['subdir', 'otherdir'],
                           ['100', '000'] if ctx.tier == 'thorough' else ['100'], [sd['rot']], reps=1, ids='relfile', spell='varied'))]
    rep2 = run_batches(ctx, idbatches, ['c09keep', 'c02', 'c03cut'], [], nontrivial=lambda o, v: v['wf'])
    rep.evaluations += rep2.evaluations
    rep.violations += rep2.violations
    rep.nontrivial |= rep2.nontrivial
    for k, n in rep2.hit.items():
        rep.hit[k] = rep.hit.get(k, 0) + n
    for k, n in rep2.counts.items():
        rep.counts['ids:' + k] = n
    return rep.finish(
        'model_checking',
        'The C02 enumeration (all element kinds, N<=3 nodes, 2-3 documents; N<=4 with parameters / responses) run with '
        'SkipSchemas in every layout class; predicates (ExpOracle.tla): Keeps - parameters, responses, path items are '
        'dereferenced, every schema $ref is still a $ref and designates, read from the root location, the node it designated '
        'before; definitions byte-equal (as JSON values) to the input; refs into the root fragment-only; bisimilarity; '
        'SkipThenFull - a real full expansion of the real skip-mode result is bisimilar to the input, cut only on cycles and, '
        'for acyclic graphs, JSON-equal to the direct full expansion. Model level: C09_NoSchemaFollow on Expander.tla with Skip.',
        ASSUME)


ELEMENT_ENTRIES_CWD = 'ExpandSchema:typed,ExpandSchema:generic,ExpandParameterWithRoot,ExpandResponseWithRoot'
ELEMENT_ENTRIES_BASE = 'ExpandSchemaWithBasePath,ExpandParameter,ExpandResponse'


def check_c10(ctx):
    sd = seeded(ctx)
    preds = ['c02', 'c03cut', 'c03free', 'c03form', 'c10root', 'c10opts', 'c04', 'c08noerr']
    if ctx.tier == 'thorough':
        lay2 = [a + '+' + b for a in ALL_LAYOUTS for b in ('sibling', 'subdir')]
        batches = [Batch(G_N3_D3_WF, lay2, ['000'], [sd['rot']], reps=2, entry=ELEMENT_ENTRIES_CWD, names=sd['names'], spell=sd['spell']),
                   Batch(G_N3_D3_WF, lay2, ['000', '001'], [sd['rot']], reps=2, entry=ELEMENT_ENTRIES_BASE, names=sd['names'], spell=sd['spell']),
                   Batch(G_N4_S_WF, ALL_LAYOUTS, ['000'], [(sd['rot'] + 3) % 12], reps=2, entry='ExpandSchema:typed,ExpandSchema:generic,ExpandSchemaWithBasePath'),
                   Batch(G_N4_SP_WF, ORDINARY, ['000'], [sd['rot']], reps=1, entry='ExpandParameterWithRoot,ExpandParameter'),
                   Batch(G_N4_SR_WF, ORDINARY, ['000'], [sd['rot']], reps=1, entry='ExpandResponseWithRoot,ExpandResponse')]
        mcs = [(G_N3_D3_WF, False, False, 'N3D3_strict_full'), (G_N4_S_WF, False, False, 'N4S_strict_full')]
    else:
        batches = [Batch(G_N3_ALL_WF, ALL_LAYOUTS, ['000'], [sd['rot']], reps=2, entry=ELEMENT_ENTRIES_CWD, names=sd['names'], spell=sd['spell']),
                   Batch(G_N3_ALL_WF, ALL_LAYOUTS, ['000', '001'], [sd['rot']], reps=2, entry=ELEMENT_ENTRIES_BASE, names=sd['names'], spell=sd['spell']),
                   # parameters / responses that are themselves $refs to elements holding schemas (4 nodes)
                   Batch(G_N4_SP_WF, ['sibling'], ['000'], [sd['rot']], reps=1, entry='ExpandParameterWithRoot,ExpandParameter:relbase'),
                   Batch(G_N4_SR_WF, ['subdir'], ['000'], [sd['rot']], reps=1, entry='ExpandResponseWithRoot,ExpandResponse:relbase')]
        mcs = [(G_N3_ALL_WF, False, False, 'N3_strict_full')]
    fr = Batch(G_N3_ALL_WF, ALL_LAYOUTS if ctx.tier == 'thorough' else ['sibling', 'subdir', 'parent'], ['000'], [sd['rot']], reps=1,
               entry='ExpandSchema:typed,ExpandSchema:generic', caches='foreignroot,' + FOREIGN_CACHES, names=sd['names'], spell=sd['spell'])
    batches.append(fr)
    # the base location given as a relative, non-canonical path
    batches.append(Batch(G_N3_ALL_WF, ORDINARY if ctx.tier == 'thorough' else ['sibling', 'subdir'], ['000'], [sd['rot']], reps=1,
                         entry=RELBASE_ENTRIES, names=sd['names'], spell=sd['spell']))
    rep = run_batches(ctx, batches, preds, mcs, nontrivial=lambda o, v: v['wf'] and o['outcome'] == 'ok')
    # options without a RelativeBase (only the caller's options and totality are judged: without a root
    # document the pseudo root is empty, so local references legitimately fail)
    nb = [Batch(G_N3_ALL_WF, ['sibling', 'subdir'], ['000', '001'], [sd['rot']], reps=1, entry='ExpandSchemaWithBasePath:nobase')]
    rep2 = run_batches(ctx, nb, ['c10opts', 'c04'], [], nontrivial=lambda o, v: True)
    rep.evaluations += rep2.evaluations
    rep.violations += rep2.violations
    rep.nontrivial |= rep2.nontrivial
    for k, n in rep2.counts.items():
        rep.counts['nobase:' + k] = n
    # unresolvable references (every fault class, one per graph) through the single-element entry points: the same
    # error discipline as whole-spec expansion, whatever the form in which the root is supplied
    fb = [Batch(G_N2_ALL_ANY if ctx.tier != 'thorough' else G_N3_ALL_ANY, ['sibling'], ['000'], [sd['rot']], reps=1,
                entry=ELEMENT_ENTRIES_CWD + ',ExpandSchemaWithBasePath', allfaults=True)]
    # ... and at every sub-schema keyword (all twelve rotations)
    fb.append(Batch(G_N2_ALL_ANY, ['sibling'], ['000'], list(range(12)), reps=1, entry=ELEMENT_ENTRIES_CWD))
    # a caller cache that already holds the other documents: they are used, not fetched again
    fb.append(Batch(G_N3_ALL_WF, ['sibling', 'subdir'], ['000'], [sd['rot']], reps=1, entry=ELEMENT_ENTRIES_CWD, caches='preload:1,preload:0+1'))
    rep3 = run_batches(ctx, fb, ['c08err', 'c08noerr', 'c04', 'c10root', 'c18never', 'c02'], [], nontrivial=lambda o, v: v['nbad'] > 0)
    rep.evaluations += rep3.evaluations
    rep.violations += rep3.violations
    rep.nontrivial |= rep3.nontrivial
    for k, n in rep3.hit.items():
        rep.hit[k] = rep.hit.get(k, 0) + n
    for k, n in rep3.counts.items():
        rep.counts['faults:' + k] = n
    # a schema that is its own root (nil root), alone and in sequences through one caller cache
    cache_sequences(ctx, rep)
    return rep.finish(
        'model_checking',
        'Every referable element (definition / parameter / response) of every enumerated root is expanded through every '
        'single-element entry point: ExpandSchema with typed and with generic root, ExpandSchemaWithBasePath (root reached '
        'through its location), ExpandParameterWithRoot / ExpandResponseWithRoot, ExpandParameter / ExpandResponse (base path; '
        'package PathLoader swapped for the recording loader). The result, placed at the element\'s own pointer in a document '
        'at the root location, must be bisimilar to the element in the input graph (kept refs resolve against the same root), '
        'be cut only on cycles, and the root document and the caller\'s ExpandOptions must be unchanged (JSON / field equality '
        'before and after). In-memory-root entries run in a private working directory shaped like the layouts. Also: a caller cache '
        'that served an expansion against another root of the same shape before (foreignroot), and options without a RelativeBase.',
        ASSUME)


def repo_suite_traces(ctx, rep):
    """Trace source 3: the repository's own test suite, built with the verif tag and run with
    VERIF_TRACE_FILE set; every library call it makes is validated against ExpTrace.tla."""
    import subprocess
    trace = ctx.path('repo_trace.ndjson')
    env = dict(vlib.GOENV, VERIF_TRACE_FILE=trace)
    try:
        p = subprocess.run(['flock', '/tmp/verif-suite.lock', 'go', 'test', '-tags', 'verif', '-vet=off', '-count=1', '.'], cwd=vlib.REPO, env=env,
                           stdout=subprocess.PIPE, stderr=subprocess.STDOUT, text=True, timeout=900)
    except subprocess.TimeoutExpired:
        raise Broken('the repository test suite (verif build) did not finish in 15 min')
    if not os.path.exists(trace) or os.path.getsize(trace) == 0:
        raise Broken('the repository test suite produced no trace (hooks missing?): ' + p.stdout[-500:])
    rep.counts['repo_suite_exit'] = p.returncode
    # one trace per (goroutine, call)
    cur, traces = {}, []
    for line in open(trace):
        try:
            r = json.loads(line)
        except ValueError:
            continue
        g, e = r['g'], [x.encode('ascii', 'backslashreplace').decode() for x in r['e']]
        if e[0] == 'call':
            if cur.get(g):
                traces.append(cur[g])
            cur[g] = []
            continue
        cur.setdefault(g, []).append(e)
    traces += [t for t in cur.values() if t]
    traces = [t for t in traces if t]
    of = ctx.path('repo_traces_obs.ndjson')
    with open(of, 'w') as w:
        for i, t in enumerate(traces):
            w.write(json.dumps({'id': i + 1, 'events': t[:6000]}) + '\n')
    files = vlib.shard_file(ctx, of, 8, 'repotr_obs')
    drift = 0
    for o, v in vlib.run_oracle(ctx, 'TraceOracle', files):
        rep.evaluations += 1
        rep.count('repo_trace:' + v['c18step'])
        if len(o['events']) > 3:
            rep.nontrivial.add('repo-trace-%d' % o['id'])
        if v['conf'] == 'fail':
            drift += 1
        if v['c18step'] == 'fail':
            rep.fail('c18step', {'family': 'repo-trace', 'events': o['events'][:200], 'at': v['confat'], 'why': v['confwhy']}, [],
                     'a call made by the repository test suite: event %d: %s' % (v['confat'], v['confwhy']))
    rep.counts['repo_trace_drift'] = drift
    log('[repo-suite] %d call traces from the repository tests validated (%d drift)' % (len(traces), drift))


def check_c18(ctx):
    sd = seeded(ctx)
    preds = ['c18once', 'c18key', 'c18never', 'c18step', 'c02', 'c03cut']
    caches = 'none,fresh,reuse,preload:0,preload:1,preload:0+1'
    if ctx.tier == 'thorough':
        caches += ',preload:2,preload:1+2,preload:0+1+2'
        batches = [Batch(G_N3_D3_WF, [a + '+' + b for a in ALL_LAYOUTS for b in ('sibling', 'subdir')], ['000'], [sd['rot']], reps=1,
                         entry='ExpandSchemaWithBasePath', names=sd['names'], spell=sd['spell']),
                   Batch(G_N4_S_WF, ALL_LAYOUTS, ['000'], [sd['rot']], reps=1, entry='ExpandSchemaWithBasePath,ExpandSchema:typed'),
                   Batch(G_N3_D3_WF, ['sibling+parent', 'remote+otherdir'], ['000', '001', '010'], [sd['rot']], reps=1)]
        mcs = [(G_N3_D3_WF, False, False, 'N3D3_strict_full'), (G_N4_S_WF, False, False, 'N4S_strict_full')]
    else:
        batches = [Batch(G_N3_ALL_WF, ALL_LAYOUTS, ['000'], [sd['rot']], reps=1, entry='ExpandSchemaWithBasePath,ExpandSchema:typed',
                         names=sd['names'], spell=sd['spell']),
                   Batch(G_N3_ALL_WF, ORDINARY, ['000'], [sd['rot']], reps=1)]
        mcs = [(G_N3_ALL_WF, False, False, 'N3_strict_full')]
    for b in batches:
        if b.entry != 'ExpandSpec':
            b.caches = caches
    # a caller cache that served an expansion against ANOTHER root before (same shape, none of the sections, more sections)
    batches.append(Batch(G_N3_ALL_WF, ALL_LAYOUTS if ctx.tier == 'thorough' else ['sibling', 'subdir'], ['000'], [sd['rot']], reps=1,
                         entry='ExpandSchema:typed,ExpandSchema:generic', caches='none,foreignroot,' + FOREIGN_CACHES,
                         names=sd['names'], spell='varied'))
    rep = run_batches(ctx, batches, preds, mcs, nontrivial=lambda o, v: len(o['docurls']) > 1,
                      sample=lambda o, v: o.get('cache') in ('reuse', 'preload') and len(o['loadss']) > 0,
                      post=c18_transparency)
    repo_suite_traces(ctx, rep)
    cache_sequences(ctx, rep)
    return rep.finish(
        'model_checking',
        'Every enumerated multi-document graph; every definition expanded by ExpandSchemaWithBasePath / ExpandSchema with: no '
        'cache, a fresh caller cache, a cache pre-loaded with every subset of the documents, one cache reused across the '
        'sequence of expansions of all definitions of the root; plus whole-spec expansions. Predicates: no delivered document is '
        'requested twice (loader log), no request carries a fragment, a document present in the supplied cache (pre-loaded or '
        'loaded by an earlier call of the sequence) is never requested, the hook trace never shows a miss on a stored document '
        '(ExpTrace.tla), every result is bisimilar to the input and, for acyclic graphs, byte-identical across all cache modes '
        '(transparency). Model level: C18_AtMostOnce on Expander.tla. Additional trace source: the repository\'s own test suite built '
        'with the verif tag and run with VERIF_TRACE_FILE set - every library call its tests make (azure, bitbucket, k8s ... '
        'fixtures) is cut into one event trace per call and validated by TraceOracle.tla / ExpTrace.tla (no miss on a stored '
        'document, no loader call without a preceding miss; cycle-test conformance counted as drift).',
        ASSUME)


def cache_sequences(ctx, rep):
    """CacheSeq.tla: sequences of calls through one caller-supplied cache (transparency, fetched at most once)."""
    maxlen = 3 if ctx.tier == 'thorough' else 2
    cases = ctx.path('cacheseq.ndjson')
    cfg = 'CONSTANTS\nMaxLen = %d\nMode = "gen"\nInFile = ""\nOutFile = "%s"\nSPECIFICATION Spec\nINVARIANT AnswersIndependent\nPROPERTY CacheMonotone\n' % (maxlen, cases)
    vlib.model_check(ctx, 'CacheSeq', cfg, 'seq_L%d' % maxlen, workers=2)
    obsfiles = vlib.run_worker(ctx, 'cacheseq', cases, ['-watchdog', '20s'], prefix='cseq', shards=8)
    for o, v in vlib.run_oracle(ctx, 'CacheSeq', obsfiles, consts={'MaxLen': str(maxlen), 'Mode': '"judge"'}, cfg_names=('InFile', 'OutFile')):
        rep.evaluations += 1
        if len(o['seq']) > 1 and o['mode'] == 'reuse':
            rep.nontrivial.add(hashlib.sha1(json.dumps([o['seq'], o['api']]).encode()).digest()[:8])
        for pn in ('c18seqtransparent', 'c18seqonce'):
            rep.count(pn + ':' + v[pn])
            if v[pn] == 'fail':
                rep.fail(pn, {'family': 'cacheseq', 'seq': o['seq'], 'api': o['api'], 'mode': o['mode'], 'steps': o['steps']}, [],
                         'calls %s through %s, cache mode %s: %s' % (o['seq'], o['api'], o['mode'], [
                             (s['name'], s['out'][:70], 'solo=' + s['solo'][:70], s['loads']) for s in o['steps']]))


def replay_cacheseq(ctx, rec):
    vlib.build_worker(ctx)
    c = rec['case']
    f = ctx.path('replay_cseq.ndjson')
    open(f, 'w').write(json.dumps({'seq': c['seq'], 'api': c['api']}) + '\n')
    obsfiles = vlib.run_worker(ctx, 'cacheseq', f, [], shards=1, prefix='replay')
    bad = 0
    for o, v in vlib.run_oracle(ctx, 'CacheSeq', obsfiles, consts={'MaxLen': '3', 'Mode': '"judge"'}, cfg_names=('InFile', 'OutFile')):
        if o['mode'] == c['mode']:
            print(json.dumps({'mode': o['mode'], 'steps': o['steps'], 'verdict': v}, indent=1))
            bad += v.get(rec['predicate']) == 'fail'
    print('REPRODUCED' if bad else 'NOT-REPRODUCED')
    return 1 if bad else 0


def c18_transparency(rep, pairs):
    """acyclic graphs: the output bytes must not depend on the cache mode"""
    groups = {}
    for o, v in pairs:
        if o['outcome'] not in ('ok', 'error') or not v['wf'] or not o.get('elem'):
            continue
        k = json.dumps([o['abstract'], o['layout'], o['rot'], o['opts'], o['entry'], o['elem'], o.get('names'), o.get('spell')], sort_keys=True)
        groups.setdefault(k, []).append((o, v))
    n = 0
    for k, lst in groups.items():
        # success or failure never depends on the cache; for acyclic graphs neither do the bytes
        outs = set((o['outcome'], o['concrete'][-1] if o['outcome'] == 'ok' and not v['cyclic'] else '') for o, v in lst)
        n += 1
        if len(outs) > 1:
            o, v = next(((o, v) for o, v in lst if o.get('cache') not in ('none', None, '')), lst[0])
            kf = sorted(set(x for o2, v2 in lst for x in v2.get('kf', [])))
            rep.fail('c18transparent', replay_obj(o, v), kf, 'outcome / output differs across cache modes %s: %s' % (
                sorted(set(o2.get('cache') for o2, v2 in lst)), brief(o, v)))
    rep.counts['c18transparent:groups'] = rep.counts.get('c18transparent:groups', 0) + n


def replay(ctx, rec):
    """Re-run one recorded case through worker and oracle; prints the fresh verdict."""
    c = rec['case']
    vlib.build_worker(ctx)
    case = {'case': c.get('case', 1), 'nodes': c['abstract'], 'layout': c['layout'], 'rot': c['rot'], 'opts': c['opts'],
            'entry': c['entry'] or 'ExpandSpec', 'reps': c.get('reps') or 2, 'failurl': c['failurl'], 'preload': c['preload'],
            'names': c.get('names') or 'plain', 'spell': c.get('spell') or 'simple', 'cache': c.get('cache') or 'none', 'site': c.get('site') or '', 'flags': c.get('flags') or ''}
    f = ctx.path('replay_case.ndjson')
    open(f, 'w').write(json.dumps(case) + '\n')
    obsfiles = vlib.run_worker(ctx, 'expander', f, ['-entry', case['entry']], shards=1, prefix='replay')
    pairs = judge(ctx, obsfiles)
    pred = rec['predicate']
    bad = 0
    for o, v in pairs:
        if c.get('elem') and o.get('elem') != c.get('elem'):
            continue
        print(json.dumps({'outcome': o['outcome'], 'err': o['err'], 'documents': o['concrete'], 'verdict': v}, indent=1))
        if v.get(pred) == 'fail':
            bad += 1
    print('REPRODUCED' if bad else 'NOT-REPRODUCED', 'predicate=%s' % pred)
    return 1 if bad else 0


CHECKS = {'C02': check_c02, 'C03': check_c03, 'C04': check_c04, 'C08': check_c08, 'C09': check_c09, 'C10': check_c10,
          'C18': check_c18}
REPLAY = {'expander': replay, 'cacheseq': replay_cacheseq}
