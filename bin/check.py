#!/usr/bin/env python3
"""Driver of the /verif checks.

  check.py <ID> <quick|thorough>      run the check of one property
  check.py --replay <file>            re-run one recorded violation
  check.py setup                      pre-generate the TLC case files

exit 0: property held on everything explored (known findings are printed, not counted)
exit 1: VIOLATION property=<id> replay=<path>
exit 2: the check itself is broken (model error, dead worker, timeout) - never a violation
"""
import os
import sys
import traceback

sys.path.insert(0, os.path.dirname(os.path.abspath(__file__)))
import vlib  # noqa: E402


def _terminated(signum, frame):
    # a check that is stopped from outside (timeout) still removes its scratch directory
    raise KeyboardInterrupt('signal %d' % signum)


def main():
    import signal
    signal.signal(signal.SIGTERM, _terminated)
    if len(sys.argv) >= 2 and sys.argv[1] == 'setup':
        import fam_expander
        ctx = vlib.Ctx('setup', 'quick', 0)
        try:
            fam_expander.pregen(ctx, len(sys.argv) > 2 and sys.argv[2] == "thorough")
        finally:
            ctx.cleanup()
        return 0
    if len(sys.argv) >= 3 and sys.argv[1] == '--replay':
        import replay
        return replay.main(sys.argv[2])
    if len(sys.argv) < 3:
        print(__doc__)
        return 2
    prop, tier = sys.argv[1], sys.argv[2]
    tier = os.environ.get('VERIF_TIER', tier)
    seed = int(os.environ.get('VERIF_SEED', '1') or '1')
    ctx = vlib.Ctx(prop, tier, seed)
    try:
        import registry
        fn = registry.CHECKS.get(prop)
        if fn is None:
            print('no check registered for', prop, file=sys.stderr)
            return 2
        return fn(ctx)
    except vlib.Broken as e:
        print('BROKEN-CHECK property=%s: %s' % (prop, e), file=sys.stderr)
        return 2
    except KeyboardInterrupt as e:
        print('BROKEN-CHECK property=%s: interrupted (%s)' % (prop, e), file=sys.stderr)
        return 2
    except Exception:
        traceback.print_exc()
        return 2
    finally:
        if not os.environ.get('VERIF_KEEP'):
            ctx.cleanup()
        else:
            print('scratch kept:', ctx.scratch, file=sys.stderr)


if __name__ == '__main__':
    sys.exit(main())
