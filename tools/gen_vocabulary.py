#!/usr/bin/env python3
"""Generates spec/Vocabulary.tla from the meta-schemas shipped in /repo.

The keyword sets, required sets and the admission of x- extensions are READ from
schemas/v2/schema.json and schemas/jsonschema-draft-04.json; the value type of each keyword
(how the Go model represents it) comes from the table VT below.  The generator fails if the
meta-schemas define a keyword the table does not know, so the requirement side of C01 is the
shipped schema, not a reading of the struct tags.

usage: gen_vocabulary.py <repo> <out.tla>
"""
import json
import os
import sys

# kind -> list of (flavour, meta-schema definition name or None for the document root)
KINDS = {
    'swagger': [('', None)],
    'info': [('', 'info')], 'contact': [('', 'contact')], 'license': [('', 'license')],
    'externalDocs': [('', 'externalDocs')], 'tag': [('', 'tag')], 'xml': [('', 'xml')],
    'operation': [('', 'operation')], 'pathItem': [('', 'pathItem')], 'paths': [('', 'paths')],
    'response': [('', 'response'), ('ref', 'jsonReference')], 'responses': [('', 'responses')], 'header': [('', 'header')],
    'items': [('', 'primitivesItems')], 'schema': [('', 'schema')],
    'parameter': [('body', 'bodyParameter'), ('query', 'queryParameterSubSchema'), ('header', 'headerParameterSubSchema'),
                  ('formData', 'formDataParameterSubSchema'), ('path', 'pathParameterSubSchema'),
                  # a parameter / response may be given as a JSON reference wherever one is expected
                  ('ref', 'jsonReference')],
    'securityScheme': [('basic', 'basicAuthenticationSecurity'), ('apiKey', 'apiKeySecurity'), ('implicit', 'oauth2ImplicitSecurity'),
                       ('password', 'oauth2PasswordSecurity'), ('application', 'oauth2ApplicationSecurity'),
                       ('accessCode', 'oauth2AccessCodeSecurity')],
}

VAL = {'maximum': 'num', 'minimum': 'num', 'multipleOf': 'num', 'exclusiveMaximum': 'bool', 'exclusiveMinimum': 'bool',
       'maxLength': 'int', 'minLength': 'int', 'pattern': 'str', 'maxItems': 'int', 'minItems': 'int', 'uniqueItems': 'bool',
       'enum': 'anys'}
SIMPLE = dict(VAL, type='str', format='str', collectionFormat='str', default='any', items='kind:items')

# value types per kind
VT = {
    'swagger': {'swagger': 'str', 'info': 'kind:info', 'host': 'str', 'basePath': 'str', 'schemes': 'strs', 'consumes': 'strs',
                'produces': 'strs', 'paths': 'kind:paths', 'definitions': 'map:schema', 'parameters': 'map:parameter',
                'responses': 'map:response', 'security': 'security', 'securityDefinitions': 'map:securityScheme',
                'tags': 'list:tag', 'externalDocs': 'kind:externalDocs', 'id': 'str'},
    'info': {'title': 'str', 'version': 'str', 'description': 'str', 'termsOfService': 'str', 'contact': 'kind:contact',
             'license': 'kind:license'},
    'contact': {'name': 'str', 'url': 'str', 'email': 'str'},
    'license': {'name': 'str', 'url': 'str'},
    'externalDocs': {'description': 'str', 'url': 'str'},
    'tag': {'name': 'str', 'description': 'str', 'externalDocs': 'kind:externalDocs'},
    'xml': {'name': 'str', 'namespace': 'str', 'prefix': 'str', 'attribute': 'bool', 'wrapped': 'bool'},
    'operation': {'tags': 'strs', 'summary': 'str', 'description': 'str', 'externalDocs': 'kind:externalDocs', 'operationId': 'str',
                  'produces': 'strs', 'consumes': 'strs', 'parameters': 'list:parameter', 'responses': 'kind:responses',
                  'schemes': 'strs', 'deprecated': 'bool', 'security': 'security'},
    'pathItem': {'$ref': 'ref', 'get': 'kind:operation', 'put': 'kind:operation', 'post': 'kind:operation', 'delete': 'kind:operation',
                 'options': 'kind:operation', 'head': 'kind:operation', 'patch': 'kind:operation', 'parameters': 'list:parameter'},
    'paths': {},
    'responses': {},
    'response': {'description': 'str', 'schema': 'kind:schema', 'headers': 'map:header', 'examples': 'anymap', '$ref': 'ref'},
    'header': dict(SIMPLE, description='str'),
    'items': dict(SIMPLE),
    'parameter': dict(SIMPLE, name='str', description='str', required='bool', allowEmptyValue='bool', schema='kind:schema',
                      **{'in': 'str', '$ref': 'ref'}),
    'schema': dict(VAL, title='str', description='str', default='any', example='any', format='str', discriminator='str',
                   readOnly='bool', required='strs', type='typeUnion', items='schemaOrArray', allOf='list:schema',
                   properties='map:schema', additionalProperties='schemaOrBool', xml='kind:xml', externalDocs='kind:externalDocs',
                   maxProperties='int', minProperties='int',
                   # JSON-Schema draft-04 keywords beyond the Swagger schema object
                   id='str', additionalItems='schemaOrBool', definitions='map:schema', patternProperties='map:schema',
                   dependencies='map:schemaOrStrings', anyOf='list:schema', oneOf='list:schema',
                   **{'$ref': 'ref', '$schema': 'str', 'not': 'kind:schema'}),
    'securityScheme': {'type': 'str', 'description': 'str', 'name': 'str', 'in': 'str', 'flow': 'str', 'authorizationUrl': 'str',
                       'tokenUrl': 'str', 'scopes': 'scopes'},
}
# keywords the Go model has beyond the meta-schemas ("library keywords")
LIBRARY = {'swagger': {'id'}, 'schema': {'nullable'}, 'parameter': {'nullable', 'example'}, 'header': {'nullable', 'example'},
           'items': {'nullable', 'example', '$ref'}}
for k, kws in LIBRARY.items():
    for kw in kws:
        VT[k].setdefault(kw, {'nullable': 'bool', 'example': 'any', '$ref': 'ref', 'id': 'str'}[kw])

# fixed values the concretiser must use for enum-typed required members, per flavour
FIXED = {
    ('parameter', 'body'): {'in': 'body'}, ('parameter', 'query'): {'in': 'query'}, ('parameter', 'header'): {'in': 'header'},
    ('parameter', 'formData'): {'in': 'formData'}, ('parameter', 'path'): {'in': 'path'},
    ('securityScheme', 'basic'): {'type': 'basic'}, ('securityScheme', 'apiKey'): {'type': 'apiKey', 'in': 'header'},
    ('securityScheme', 'implicit'): {'type': 'oauth2', 'flow': 'implicit'},
    ('securityScheme', 'password'): {'type': 'oauth2', 'flow': 'password'},
    ('securityScheme', 'application'): {'type': 'oauth2', 'flow': 'application'},
    ('securityScheme', 'accessCode'): {'type': 'oauth2', 'flow': 'accessCode'},
    ('swagger', ''): {'swagger': '2.0'},
}


def tla_str(s):
    return '"' + s.replace('\\', '\\\\').replace('"', '\\"') + '"'


def tla_set(xs):
    return '{' + ', '.join(tla_str(x) for x in sorted(xs)) + '}'


def main():
    repo, out = sys.argv[1], sys.argv[2]
    sw = json.load(open(os.path.join(repo, 'schemas/v2/schema.json')))
    d4 = json.load(open(os.path.join(repo, 'schemas/jsonschema-draft-04.json')))
    rows = []   # (kind, flavour, keywords, required, admitsExt)
    for kind, flavours in KINDS.items():
        for fl, defname in flavours:
            node = sw if defname is None else sw['definitions'][defname]
            props = set(node.get('properties', {}))
            if kind == 'schema':
                props |= set(d4['properties'])          # draft-04 vocabulary
            if kind == 'parameter' and fl not in ('body', 'ref'):
                props.discard('$ref')
            req = set(node.get('required', []))
            ext = any(p.startswith('^x-') for p in node.get('patternProperties', {}))
            if defname is None:
                ext = True
            unknown = props - set(VT[kind])
            if unknown:
                sys.exit('gen_vocabulary: meta-schema keywords without a value type for kind %s/%s: %s' % (kind, fl, sorted(unknown)))
            # the non-body parameter sub-schemas require type (through their oneOf); name and in are required for all
            if kind == 'parameter' and fl != 'ref':
                req |= {'name', 'in'}
                if fl != 'body':
                    req |= {'type'}
            if kind == 'securityScheme' and fl in ('implicit', 'password', 'application', 'accessCode'):
                req |= {'scopes'}
            lib = set() if fl == 'ref' else LIBRARY.get(kind, set()) - props
            rows.append((kind, fl, props, req, ext, lib))
    with open(out, 'w') as f:
        f.write('---------------------------- MODULE Vocabulary ----------------------------\n')
        f.write('(* GENERATED by tools/gen_vocabulary.py from the meta-schemas in /repo/schemas. *)\n')
        f.write('(* Keyword sets, required sets and extension admission are read from the      *)\n')
        f.write('(* shipped Swagger 2.0 and JSON-Schema draft-04 schemas.                      *)\n')
        f.write('EXTENDS Naturals, Sequences, FiniteSets\n\n')
        f.write('Kinds == %s\n\n' % tla_set(KINDS))
        f.write('\\* <<kind, flavour>> pairs\n')
        f.write('KindFlavours == {%s}\n\n' % ', '.join('<<%s, %s>>' % (tla_str(k), tla_str(fl)) for k, fl, *_ in rows))

        def table(name, fn):
            f.write('%s(k, fl) ==\n' % name)
            first = True
            for k, fl, props, req, ext, lib in rows:
                f.write('  %s k = %s /\\ fl = %s -> %s\n' % ('CASE' if first else '  []', tla_str(k), tla_str(fl), fn(k, fl, props, req, ext, lib)))
                first = False
            f.write('\n')
        table('MetaKeywords', lambda k, fl, p, r, e, lib: tla_set(p))
        table('LibraryKeywords', lambda k, fl, p, r, e, lib: tla_set(lib))
        table('RequiredOf', lambda k, fl, p, r, e, lib: tla_set(r))
        table('AdmitsExt', lambda k, fl, p, r, e, lib: 'TRUE' if e else 'FALSE')
        f.write('AdmitsUnknown(k) == k = "schema"\n\n')
        f.write('VTypeOf(k, kw) ==\n')
        first = True
        for k in KINDS:
            for kw, vt in sorted(VT[k].items()):
                f.write('  %s k = %s /\\ kw = %s -> %s\n' % ('CASE' if first else '  []', tla_str(k), tla_str(kw), tla_str(vt)))
                first = False
        f.write('\n')
        f.write('\\* members whose value is fixed by the flavour (enum-valued discriminators)\n')
        f.write('FixedOf(k, fl) ==\n')
        first = True
        for k, fl, *_ in rows:
            fx = FIXED.get((k, fl), {})
            f.write('  %s k = %s /\\ fl = %s -> %s\n' % ('CASE' if first else '  []', tla_str(k), tla_str(fl), tla_set(fx)))
            first = False
        f.write('\n=============================================================================\n')
    # side file for the Go concretiser
    json.dump({'fixed': {'%s/%s' % k: v for k, v in FIXED.items()},
               'vt': VT, 'required': {'%s/%s' % (k, fl): sorted(r) for k, fl, p, r, e, lib in rows}},
              open(os.path.splitext(out)[0] + '.json', 'w'), indent=1, sort_keys=True)


if __name__ == '__main__':
    main()
