#!/usr/bin/env python3
"""Summarise the verdicts left in a kept scratch directory (VERIF_KEEP=1)."""
import json, glob, collections, sys, os
d = sys.argv[1]
preds = sys.argv[2].split(',') if len(sys.argv) > 2 else None
c = collections.Counter(); ex = {}; tot = collections.Counter()
for f in sorted(glob.glob(os.path.join(d, '*_obs.*.ndjson'))):
    vf = f.replace('_obs.', '_ver.')
    if not os.path.exists(vf): continue
    for lo, lv in zip(open(f), open(vf)):
        o = json.loads(lo); v = json.loads(lv)
        lay = '+'.join(o.get('layout', []))
        tot[lay] += 1
        for p, val in v.items():
            if val == 'fail' and (preds is None or p in preds):
                kinds = ''.join(sorted(set(n['kind'] for n in o.get('abstract', []))))
                key = (p, lay, kinds, json.dumps(o.get('opts')), tuple(v.get('kf', [])))
                c[key] += 1
                ex.setdefault(key, (o.get('err', '')[:120], o.get('concrete')))
for k, v in sorted(c.items()): print(k, v)
print(dict(tot))
if os.environ.get('EX'):
    for k, v in ex.items(): print(k, v)
