#!/usr/bin/env python3
"""Writes MANIFEST.json from the table below (kept in one place so it stays valid)."""
import json, os
V = os.path.dirname(os.path.dirname(os.path.abspath(__file__)))

TRUST = ('TLC 1.8.0 and the CommunityModules Json module; the Go projection/concretiser in harness/cmd/worker; '
         'bounds of the tier (small-scope exhaustive); the verif hooks are add-only observation points')

CHECKS = {
 'C02': ('Expander.tla model-checked on every enumerated graph; every graph replayed through the real ExpandSpec in all layouts; '
         'bisimilarity of input and output judged by TLC (RefGraph.tla/Urls.tla) on the projected real JSON.',
         '6 (C02), 3.2-3.3', 'TLA+ model checking (TLC) + replay of TLC-enumerated graphs + TLC-evaluated bisimulation oracle on real outputs'),
 'C03': ('Cut soundness (memo only holds nodes on cycles, acyclic => no cut) model-checked for every map order; on the real code '
         'every kept $ref is resolved by Urls!Resolve and must designate an input node on a cycle; acyclic => ref-free + deterministic bytes.',
         '6 (C03)', 'TLA+ model checking (TLC) + replay of TLC-enumerated graphs + TLC-evaluated on-cycle/written-form oracle'),
 'C04': ('Termination (liveness), depth and work bounds model-checked on every graph incl. ill-formed ones in all four modes; real runs in a '
         'watchdogged child process; hook event count compared with RefGraph!UnfoldSz by TLC.',
         '6 (C04)', 'TLA+ model checking incl. liveness (TLC) + watchdogged replay + TLC trace validation of hook events'),
 'C08': ('Strict/continue error discipline model-checked; real runs over every fault subset (dangling classes, refused documents); '
         'error <=> unresolvable followed ref, continue => bisimilar modulo opaque unresolvable refs, judged by TLC.',
         '6 (C08)', 'TLA+ model checking (TLC) + fault enumeration replayed on the real code + TLC-evaluated oracle'),
 'C09': ('Skip-mode behaviours of Expander.tla model-checked (schema refs never followed); real SkipSchemas runs judged by the structural '
         'predicate Keeps (deref of elements, refs kept with the same designated node), definitions equality, written form, and a real '
         'skip-then-full expansion compared with the direct one.',
         '6 (C09)', 'TLA+ model checking (TLC) + replay of TLC-enumerated graphs + TLC-evaluated structural/bisimulation oracle'),
 'C10': ('Every referable element of every enumerated root expanded through all single-element entry points; bisimilarity, cut points, '
         'root and options immutability judged on the real results.',
         '6 (C10)', 'TLA+ model checking (TLC) + replay through every entry point + TLC-evaluated bisimulation oracle'),
 'C18': ('C18_AtMostOnce model-checked; real runs with no / fresh / pre-loaded (every subset) / reused caller caches; loader log and hook '
         'trace judged by TLC (ExpTrace.tla); outputs compared across cache modes.',
         '6 (C18)', 'TLA+ model checking (TLC) + TLC trace validation of cache/loader events + replay under every cache state'),
 'C05': ('PtrCases.tla laws (RFC 6901 decode inverts encode) model-checked and every enumerated name replayed; every node of every enumerated '
         'graph referenced from the root and resolved through all Resolve* entry points in the three root modes; designation computed by '
         'TLC (Urls!Resolve + pointer lookup), result digest compared with the designated sub-document.',
         '6 (C05)', 'TLA+ enumeration + model laws (TLC) + replay through Resolve* + TLC-evaluated designation oracle'),
 'C11': ('Spell.tla transition system of equivalence-preserving rewrites model-checked (C11_Canon, C11_Idempotent); every reachable spelling '
         'replayed as RelativeBase; loader requests compared with canonical URLs by TLC.',
         '6 (C11)', 'TLA+ model checking (TLC) of the spelling transition system + replay of every reachable state'),
 'C12': ('Urls.tla (RFC 3986 5.2) laws model-checked, cross-checked against net/url on every pair; exhaustive (base, ref) enumeration '
         'replayed through two entry points with a recording loader; TLC compares.',
         '6 (C12)', 'TLA+ RFC 3986 oracle (TLC) + exhaustive replay with recording loader'),
 'C13': ('RefValue.tla conversion machine model-checked (idempotent canonicalisation, value stable under every conversion); every enumerated '
         'reference string driven through every conversion program on the real Ref; text, flags and JSON form compared with the TLC-exported '
         'canonical value after every step.',
         '6 (C13)', 'TLA+ model checking (TLC) of the conversion machine + replay of every exported behaviour'),
 'C20': ('Validations.tla accessor state machine model-checked (LawGetSet, LawClearExact, LawClearIdem) over every keyword subset; every '
         'state x clear program stepped through the real carriers; every recorded step validated by TLC against the module\'s actions.',
         '6 (C20)', 'TLA+ model checking (TLC) + replay of TLC-enumerated states/programs + TLC trace validation step by step'),
 'C16': ('Sessions.tla (world versions, package cache, per-call clone) model-checked incl. the action property C16_Stateless; every history of '
         'bounded length exported with expected version vectors and replayed back to back in one process per shard; options, package cache '
         'keys and built-in meta-schemas observed after every call.',
         '6 (C16)', 'TLA+ model checking (TLC) + replay of every TLC-exported history in one process'),
 'C17': ('Cache.tla lock protocol model-checked for every program assignment and interleaving (NoRace, Once, Linearizable, no deadlock, '
         'termination); program assignments replayed on real goroutines; linearisation traces stamped inside the critical sections '
         'validated by TLC (CacheTrace.tla) against the same RWLock predicates; stress under the Go race detector.',
         '6 (C17)', 'TLA+ model checking (TLC) + TLC validation of linearisation traces from real goroutines + race detector stress'),
 'C01': ('CodecCases.tla over Vocabulary.tla (generated from the shipped meta-schemas) enumerates every keyword x normal-form value class, pairs, '
         'extensions, unknown keywords and nesting chains; TLC checks vocabulary coverage; every document replayed through decode/encode; '
         'normal form decided and equality judged by TLC (CodecOracle.tla).',
         '6 (C01)', 'TLA+ enumeration over a generated vocabulary (TLC) + replay through the codecs + TLC-evaluated oracle'),
 'C06': ('Ordering.tla comparator model-checked (strict total order); every item set replayed over all source permutations; every encoding of '
         'the vocabulary families token-scanned; builder-API programs encoded.',
         '6 (C06)', 'TLA+ model of the property comparator (TLC) + replay over all permutations + token-level scan of real encodings'),
 'C07': ('Every keyword x 13 value classes (right or wrong), payload mixtures, chains: decoded in a watchdogged child; value-or-error and '
         'byte-for-byte fixed point judged by TLC; seeded byte-level mutants for totality.',
         '6 (C07)', 'TLA+ enumeration of wrong-typed documents (TLC) + watchdogged replay + TLC-evaluated idempotence oracle'),
 'C14': ('C01 enumeration plus payloads with nulls / empty containers for the gob carriers; gob round trip compared with the JSON encoding.',
         '6 (C14)', 'TLA+ enumeration (TLC) + gob replay + TLC-evaluated oracle'),
 'C15': ('Every pointer into every C01 document evaluated typed and generic; scope decided by TLC from the vocabulary trail.',
         '6 (C15)', 'TLA+ enumeration (TLC) + pointer replay + TLC-evaluated scope/equality oracle'),
 'C19': ('Whole valid documents grown along the vocabulary spine by TLC; validity of source, re-encoding and expansion observed with the '
         'shipped JSON schema (python jsonschema as instrument); verdicts combined by TLC.',
         '6 (C19)', 'TLA+ enumeration of valid documents (TLC) + replay (round trip, ExpandSpec) + JSON-schema validator as instrument'),
}

NA = {
}

def main():
    props = [json.loads(l)['id'] for l in open(os.path.join(V, 'properties.jsonl'))]
    checks = []
    for pid in props:
        if pid not in CHECKS:
            continue
        text, ref, tech = CHECKS[pid]
        checks.append({
            'property_id': pid,
            'quick_cmd': 'python3 bin/check.py %s quick' % pid,
            'thorough_cmd': 'python3 bin/check.py %s thorough' % pid,
            'evidence_file': 'evidence/%s.json' % pid,
            'replay_cmd_template': 'python3 bin/check.py --replay {path}',
            'engine': 'tlc+go-worker',
            'level_claimed': {'category': 'model_checking', 'text': text, 'design_ref': 'DESIGN.md section ' + ref},
            'level_note': TRUST,
            'technique': tech,
        })
    na = []
    for pid in props:
        if pid not in CHECKS:
            na.append({'property_id': pid, 'reason': NA.get(pid, 'machinery for this family not completed yet (see DESIGN.md section 10); never approximated by an ad-hoc check')})
    m = {
        'version': 1,
        'setup_cmd': 'python3 bin/check.py setup',
        'hooks': {
            'guard': 'verif',
            'enable': 'go build -tags verif (the harness module replaces github.com/go-openapi/spec with /repo)',
            'baseline_off_cmd': 'cd /repo && go test -vet=off -count=1 ./...',
            'source_commits': HOOK_COMMITS,
            'add_only': True,
        },
        'engines': [
            {'name': 'tlc+go-worker', 'path': 'bin/check.py', 'serves_properties': sorted(CHECKS),
             'kind_free_text': 'TLC model checking of spec/*.tla; TLC-enumerated cases replayed into the real package by harness/cmd/worker; recorded observations and hook event traces judged by TLC oracle/trace specifications'},
        ],
        'checks': checks,
        'not_applicable': na,
        'notes': 'Exit 2 = broken check (model error, dead worker, timeout), never a violation. Known findings: known_findings.json.',
    }
    json.dump(m, open(os.path.join(V, 'MANIFEST.json'), 'w'), indent=1)

HOOK_COMMITS = ['eecdb5e', 'a813665', '141b24a', '63c46db']
if __name__ == '__main__':
    main()
