#!/usr/bin/env python3
"""Run checks against a seeded change without touching /repo.

usage: run_seeded.py <patch.diff> <ID>[,<ID>...] [quick|thorough] [--demo demo_test.go]

Creates a scratch worktree of /repo's HEAD under /tmp, applies the patch, optionally confirms
that the package builds, the existing suite passes and the demo test fails, then runs
bin/check.py for each property with VERIF_REPO pointing at the worktree (evidence and replay
files go to a scratch directory).  Prints one line per check: CAUGHT / MISSED / BROKEN.
"""
import os
import shutil
import subprocess
import sys
import tempfile

V = os.path.dirname(os.path.dirname(os.path.abspath(__file__)))
ENV = dict(os.environ, GOFLAGS='-mod=mod', GOPROXY='off', GOSUMDB='off', GOTOOLCHAIN='local')


def sh(cmd, cwd=None, env=None, timeout=3600):
    p = subprocess.run(cmd, cwd=cwd, env=env or ENV, stdout=subprocess.PIPE, stderr=subprocess.STDOUT, text=True, timeout=timeout)
    return p.returncode, p.stdout


def main():
    args = sys.argv[1:]
    demo = None
    if '--demo' in args:
        i = args.index('--demo')
        demo = args[i + 1]
        del args[i:i + 2]
    patch, ids = args[0], args[1].split(',')
    tier = args[2] if len(args) > 2 else 'quick'
    wt = tempfile.mkdtemp(prefix='verif-seeded-')
    os.rmdir(wt)
    out = tempfile.mkdtemp(prefix='verif-seeded-out-')
    try:
        rc, o = sh(['git', '-C', '/repo', 'worktree', 'add', '-q', '--detach', wt, 'HEAD'])
        if rc != 0:
            print('cannot create worktree:', o)
            return 2
        rc, o = sh(['git', 'apply', os.path.abspath(patch)], cwd=wt)
        if rc != 0:
            print('PATCH-DOES-NOT-APPLY', o[-500:])
            return 2
        if demo:
            rc, o = sh(['go', 'build', './...'], cwd=wt)
            print('build:', 'ok' if rc == 0 else 'FAILS ' + o[-300:])
            # the suite binds a fixed port: one run at a time
            rc, o = sh(['flock', '/tmp/verif-suite.lock', 'go', 'test', '-vet=off', '-count=1', './...'], cwd=wt)
            print('existing suite with the change:', 'passes' if rc == 0 else 'FAILS ' + o[-600:])
            shutil.copy(demo, os.path.join(wt, 'zz_demo_seeded_test.go'))
            import re
            names = re.findall(r'^func (Test\w+)', open(demo).read(), re.M)
            # a demonstration that says it needs the race detector is run under it
            race = ['-race'] if 'go test -race' in open(demo).read() else []
            denv = dict(ENV, CGO_ENABLED='1') if race else ENV
            rc, o = sh(['go', 'test'] + race + ['-vet=off', '-count=1', '-run', '^(' + '|'.join(names) + ')$', '.'], cwd=wt, env=denv, timeout=900)
            print('demo with the change:', 'FAILS (as it should)' if rc != 0 else 'passes (NOT a valid demonstration)')
            sh(['git', 'checkout', '--', '.'], cwd=wt)  # undo the change, keep the (untracked) demo
            rc2, o2 = sh(['go', 'test'] + race + ['-vet=off', '-count=1', '-run', '^(' + '|'.join(names) + ')$', '.'], cwd=wt, env=denv, timeout=900)
            print('demo without the change:', 'passes (as it should)' if rc2 == 0 else 'FAILS ' + o2[-400:])
            os.remove(os.path.join(wt, 'zz_demo_seeded_test.go'))
            rc, o = sh(['git', 'apply', os.path.abspath(patch)], cwd=wt)
        env = dict(os.environ, VERIF_REPO=wt, VERIF_EVIDENCE_DIR=os.path.join(out, 'evidence'), VERIF_OUT_DIR=out)
        result = 0
        for pid in ids:
            rc, o = sh([sys.executable, os.path.join(V, 'bin', 'check.py'), pid, tier], cwd=V, env=env, timeout=7200)
            viol = [l for l in o.splitlines() if l.startswith('VIOLATION')]
            state = {0: 'MISSED', 1: 'CAUGHT', 2: 'BROKEN'}.get(rc, 'rc=%d' % rc)
            print('%s %s %s: %d violation lines%s' % (state, pid, tier, len(viol), (' | ' + viol[0][:400]) if viol else ''))
            if rc == 2:
                print(o[-1500:])
            if rc != 1:
                result = 1
        return result
    finally:
        sh(['git', '-C', '/repo', 'worktree', 'remove', '--force', wt])
        shutil.rmtree(out, ignore_errors=True)


if __name__ == '__main__':
    sys.exit(main())
