#!/usr/bin/env python3
"""Copies confirmed seeded changes from the sub-agents' scratch area into /verif/seeded and writes
seeded/README.md (from every meta.json present).
usage: assemble_seeded.py <scratch dir with C*/change*/> <dir with final logs> [offset added to the change number]"""
import json, os, re, shutil, sys
V = os.path.dirname(os.path.dirname(os.path.abspath(__file__)))
src, logs = sys.argv[1], sys.argv[2]
offset = int(sys.argv[3]) if len(sys.argv) > 3 else 0
rows = []
for cid in sorted(os.listdir(src)):
    if not re.match(r'^C\d\d$', cid):
        continue
    for ch in sorted(os.listdir(os.path.join(src, cid))):
        d = os.path.join(src, cid, ch)
        if not (ch.startswith('change') and os.path.exists(os.path.join(d, 'patch.diff'))):
            continue
        log = os.path.join(logs, '%s-%s.log' % (cid, ch))
        text = open(log).read() if os.path.exists(log) else ''
        ok = ('existing suite with the change: passes' in text and 'demo with the change: FAILS' in text
              and 'demo without the change: passes' in text)
        verdicts = re.findall(r'^(CAUGHT|MISSED|BROKEN) (C\d\d) (\w+)', text, re.M)
        sid = 'S-%s-%d' % (cid, int(ch.replace('change', '')) + offset)
        out = os.path.join(V, 'seeded', sid)
        if not ok:
            print('not confirmed, skipped:', sid)
            continue
        os.makedirs(out, exist_ok=True)
        shutil.copy(os.path.join(d, 'patch.diff'), os.path.join(out, 'patch.diff'))
        shutil.copy(os.path.join(d, 'demo_test.go'), os.path.join(out, 'demo_test.go.txt'))
        readme = open(os.path.join(d, 'README.md')).read() if os.path.exists(os.path.join(d, 'README.md')) else ''
        first = [l.strip() for l in readme.splitlines() if l.strip() and not l.startswith('#')]
        first_viol = re.search(r'^CAUGHT .*?\| (VIOLATION.*)$', text, re.M)
        meta = {
            'id': sid, 'breaks_property': cid,
            'what_was_changed_and_what_it_needs': ' '.join(first)[:1500],
            'confirmed_by_me': {
                'command': 'python3 tools/run_seeded.py seeded/%s/patch.diff %s quick --demo seeded/%s/demo_test.go.txt' % (sid, cid, sid),
                'existing_suite_passes_with_change': True, 'demo_fails_with_change': True, 'demo_passes_without_change': True},
            'checks': [{'property': p, 'tier': t, 'result': r} for r, p, t in verdicts],
            'first_violation_line': first_viol.group(1)[:600] if first_viol else None,
            'written_by': 'independent sub-agent given only the property text and its own worktree',
        }
        json.dump(meta, open(os.path.join(out, 'meta.json'), 'w'), indent=1)
for sid in sorted(os.listdir(os.path.join(V, 'seeded'))):
    mp = os.path.join(V, 'seeded', sid, 'meta.json')
    if os.path.exists(mp):
        m = json.load(open(mp))
        rows.append((sid, m['breaks_property'], ', '.join('%s %s: %s' % (c['property'], c['tier'], c['result']) for c in m['checks']),
                     m['what_was_changed_and_what_it_needs'][:260]))
with open(os.path.join(V, 'seeded', 'README.md'), 'w') as f:
    f.write('# Seeded changes\n\nEach directory holds a change to go-openapi/spec that breaks one property while compiling and passing the '
            'existing test suite (written by an independent sub-agent from the property text alone, confirmed with '
            '`tools/run_seeded.py`), its demonstration (`demo_test.go.txt`: fails with the change, passes without) and `meta.json`.\n'
            'None of them is ever committed to /repo; `tools/run_seeded.py` applies the patch in a scratch worktree.\n\n'
            '| id | property | checks (quick tier) | the change |\n|---|---|---|---|\n')
    for r in rows:
        f.write('| %s | %s | %s | %s |\n' % (r[0], r[1], r[2], r[3].replace('|', '/')))
print(len(rows), 'seeded changes assembled')
