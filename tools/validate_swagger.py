#!/usr/bin/env python3
"""Instrument of C19: validates JSON documents against the Swagger 2.0 schema shipped in /repo
(python jsonschema, Draft4Validator, offline).

usage: validate_swagger.py <repo> <obs.ndjson> <out.ndjson>
For every observation line with srcraw / n1raw / expanded it writes {id, validin, validrt, validexp, why}.
"""
import json
import sys

import jsonschema


def main():
    repo, inp, out = sys.argv[1:4]
    sw = json.load(open(repo + '/schemas/v2/schema.json'))
    d4 = json.load(open(repo + '/schemas/jsonschema-draft-04.json'))
    store = {'http://json-schema.org/draft-04/schema': d4, 'http://swagger.io/v2/schema.json': sw}
    resolver = jsonschema.RefResolver(base_uri='http://swagger.io/v2/schema.json', referrer=sw, store=store)
    v = jsonschema.Draft4Validator(sw, resolver=resolver)

    def check(text):
        if not text:
            return None, ''
        try:
            doc = json.loads(text)
        except ValueError as e:
            return False, 'not JSON: %s' % e
        errs = sorted(v.iter_errors(doc), key=lambda e: list(e.absolute_path))
        if errs:
            e = errs[0]
            return False, '/%s: %s' % ('/'.join(str(p) for p in e.absolute_path), e.message[:160])
        return True, ''
    with open(out, 'w') as w:
        for line in open(inp):
            o = json.loads(line)
            vin, why_in = check(o.get('srcraw'))
            vrt, why_rt = check(o.get('n1raw'))
            vex, why_ex = check(o.get('expanded'))
            w.write(json.dumps({'id': o['id'], 'validin': vin, 'validrt': vrt, 'validexp': vex,
                                'why': (why_in or why_rt or why_ex)[:300], 'whyin': why_in[:200]}) + '\n')


if __name__ == '__main__':
    main()
