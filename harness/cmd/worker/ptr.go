package main

// Family "ptr" (C05, pointer layer): names and their fragment spelling come from
// spec/PtrCases.tla; one document carries all names in every section; every reference is
// resolved through the real package in the three root modes.

import (
	"encoding/json"
	"fmt"
	"strconv"

	"github.com/go-openapi/spec"
)

type ptrName struct {
	Name string `json:"name"`
	Frag string `json:"frag"`
}

type ptrObs struct {
	Name    string `json:"name"`
	Frag    string `json:"frag"`
	Section string `json:"section"`
	Where   string `json:"where"` // root | sibling
	Mode    string `json:"mode"`
	RefS    string `json:"refs"`
	Outcome string `json:"outcome"`
	Err     string `json:"err"`
	Want    string `json:"want"`
	Got     string `json:"got"`
	OK      bool   `json:"ok"`
}

func init() {
	families["ptr"] = &family{
		run: func(line []byte, emit func(interface{})) error {
			var in struct {
				Names []ptrName `json:"names"`
			}
			if err := json.Unmarshal(line, &in); err != nil {
				return err
			}
			runPtr(in.Names, emit)
			return nil
		},
	}
}

func runPtr(names []ptrName, emit func(interface{})) {
	const rootU, sibU = "file:///w/r/root.json", "file:///w/r/b1.json"
	mk := func(tag string) map[string]interface{} {
		defs, params, resps, paths := map[string]interface{}{}, map[string]interface{}{}, map[string]interface{}{}, map[string]interface{}{}
		for i, n := range names {
			id := tag + strconv.Itoa(i)
			defs[n.Name] = map[string]interface{}{"title": "s" + id, "properties": map[string]interface{}{n.Name: map[string]interface{}{"title": "n" + id}}}
			params[n.Name] = map[string]interface{}{"name": "p" + id, "in": "query", "type": "string"}
			resps[n.Name] = map[string]interface{}{"description": "r" + id}
			paths["/"+n.Name] = map[string]interface{}{"x-label": "i" + id}
		}
		return map[string]interface{}{"swagger": "2.0", "info": map[string]interface{}{"title": "t", "version": "1"},
			"definitions": defs, "parameters": params, "responses": resps, "paths": paths}
	}
	docs := map[string][]byte{rootU: mustJSON(mk("R")), sibU: mustJSON(mk("S"))}
	// the root, decoded once per mode (C05 demands that resolution never modifies it)
	roots := map[string]interface{}{"location": nil}
	var sw spec.Swagger
	if err := json.Unmarshal(docs[rootU], &sw); err != nil {
		emit(&ptrObs{Outcome: "harness-error", Err: err.Error()})
		return
	}
	roots["typed"] = &sw
	var g map[string]interface{}
	_ = json.Unmarshal(docs[rootU], &g)
	roots["generic"] = g
	for i, n := range names {
		for _, where := range []string{"root", "sibling"} {
			tag, prefix := "R", ""
			if where == "sibling" {
				tag, prefix = "S", "b1.json"
			}
			id := tag + strconv.Itoa(i)
			for _, sec := range []string{"definitions", "nested", "parameters", "responses", "paths"} {
				var ref, want string
				switch sec {
				case "definitions":
					ref, want = prefix+"#/definitions/"+n.Frag, "s"+id
				case "nested":
					ref, want = prefix+"#/definitions/"+n.Frag+"/properties/"+n.Frag, "n"+id
				case "parameters":
					ref, want = prefix+"#/parameters/"+n.Frag, "p"+id
				case "responses":
					ref, want = prefix+"#/responses/"+n.Frag, "r"+id
				case "paths":
					ref, want = prefix+"#/paths/~1"+n.Frag, "i"+id
				}
				for _, mode := range []string{"typed", "generic", "location"} {
					o := &ptrObs{Name: ascii(n.Name), Frag: n.Frag, Section: sec, Where: where, Mode: mode, RefS: ref, Want: want}
					ptrCall(o, ref, rootU, docs, roots[mode])
					o.OK = o.Outcome == "ok" && o.Got == o.Want
					emit(o)
				}
			}
		}
	}
}

func ptrCall(o *ptrObs, refS, rootURL string, docs map[string][]byte, root interface{}) {
	defer func() {
		if r := recover(); r != nil {
			o.Outcome, o.Err = "panic", ascii(fmt.Sprint(r))
		}
	}()
	ld := &recLoader{docs: docs, refuse: map[string]bool{}}
	opts := &spec.ExpandOptions{RelativeBase: rootURL, PathLoader: ld.load}
	ref, err := spec.NewRef(refS)
	if err != nil {
		o.Outcome, o.Err = "error", ascii("NewRef: "+err.Error())
		return
	}
	switch o.Section {
	case "definitions", "nested":
		r, e := spec.ResolveRefWithBase(root, &ref, opts)
		if err = e; e == nil && r != nil {
			o.Got = r.Title
		}
	case "parameters":
		r, e := spec.ResolveParameterWithBase(root, ref, opts)
		if err = e; e == nil && r != nil {
			o.Got = r.Name
		}
	case "responses":
		r, e := spec.ResolveResponseWithBase(root, ref, opts)
		if err = e; e == nil && r != nil {
			o.Got = r.Description
		}
	case "paths":
		r, e := spec.ResolvePathItemWithBase(root, ref, opts)
		if err = e; e == nil && r != nil {
			if s, ok := r.Extensions.GetString("x-label"); ok {
				o.Got = s
			}
		}
	}
	if err != nil {
		o.Outcome, o.Err = "error", ascii(err.Error())
		return
	}
	o.Outcome = "ok"
}
