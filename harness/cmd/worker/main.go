// Command worker executes abstract cases against the real go-openapi/spec
// package (built from /repo's working tree) and records what it observed as
// ndjson for the TLA+ oracles.  One sub-command per specification family.
//
//	worker <family> [flags]            supervisor: reads cases, isolates crashes
//	worker <family> -child [flags]     in-process executor (stdin -> stdout)
package main

import (
	"bufio"
	"encoding/json"
	"flag"
	"fmt"
	"io"
	"os"
	"os/exec"
	"strings"
	"sync"
	"time"
)

// A family turns one case line into zero or more observation lines.
type family struct {
	flags func(fs *flag.FlagSet)
	init  func() error
	run   func(line []byte, emit func(v interface{})) error
	// crashed builds the observation recorded when the child died or hung on a case.
	crashed func(line []byte, outcome, detail string) interface{}
	// expand, when set, turns one input line into the fully specified cases fed to the child
	// one at a time (so that a crash is attributed to exactly one case).
	expand func(line []byte) ([][]byte, error)
	// slim, when set, derives the record handed to TLC from the full observation
	// (replay material such as concrete documents stays in the full file only).
	slim func(v interface{}) interface{}
}

var families = map[string]*family{}

func main() {
	if len(os.Args) < 2 {
		fmt.Fprintln(os.Stderr, "usage: worker <family> [flags]")
		os.Exit(2)
	}
	fam, ok := families[os.Args[1]]
	if !ok {
		fmt.Fprintf(os.Stderr, "unknown family %q\n", os.Args[1])
		os.Exit(2)
	}
	fs := flag.NewFlagSet(os.Args[1], flag.ExitOnError)
	child := fs.Bool("child", false, "run in-process (stdin -> stdout)")
	in := fs.String("in", "", "cases file (ndjson)")
	out := fs.String("out", "", "observations file (ndjson)")
	watchdog := fs.Duration("watchdog", 8*time.Second, "per-case time limit")
	maxCrash := fs.Int("maxcrash", 12, "stop feeding cases after this many crashed / hung ones (a violation is established by then)")
	if fam.flags != nil {
		fam.flags(fs)
	}
	_ = fs.Parse(os.Args[2:])

	if *child {
		// a child never outlives its supervisor (a hanging case would otherwise spin for ever)
		go func(parent int) {
			for os.Getppid() == parent {
				time.Sleep(2 * time.Second)
			}
			os.Exit(3)
		}(os.Getppid())
		if fam.init != nil {
			if err := fam.init(); err != nil {
				fmt.Fprintln(os.Stderr, "init:", err)
				os.Exit(2)
			}
		}
		runChild(fam)
		return
	}
	if err := supervise(fam, *in, *out, *watchdog, *maxCrash); err != nil {
		fmt.Fprintln(os.Stderr, "worker:", err)
		os.Exit(2)
	}
}

const endMark = "\x01END"

// runChild: for each input line, write the observation lines followed by an end marker.
func runChild(fam *family) {
	rd := bufio.NewReaderSize(os.Stdin, 1<<20)
	wr := bufio.NewWriterSize(os.Stdout, 1<<20)
	enc := json.NewEncoder(wr)
	enc.SetEscapeHTML(false)
	for {
		line, err := rd.ReadBytes('\n')
		if len(line) > 0 && strings.TrimSpace(string(line)) != "" {
			e := fam.run(line, func(v interface{}) {
				wr.WriteString("F\t")
				_ = enc.Encode(v)
				if fam.slim != nil {
					wr.WriteString("S\t")
					_ = enc.Encode(fam.slim(v))
				}
			})
			if e != nil {
				fmt.Fprintln(os.Stderr, "case error:", e)
				os.Exit(3)
			}
			wr.WriteString(endMark + "\n")
			wr.Flush()
		}
		if err != nil {
			return
		}
	}
}

type childProc struct {
	cmd    *exec.Cmd
	stdin  io.WriteCloser
	stdout *bufio.Reader
	stderr *tailBuf
}

type tailBuf struct {
	mu sync.Mutex
	b  []byte
}

func (t *tailBuf) Write(p []byte) (int, error) {
	t.mu.Lock()
	defer t.mu.Unlock()
	t.b = append(t.b, p...)
	if len(t.b) > 16384 {
		t.b = t.b[len(t.b)-16384:]
	}
	return len(p), nil
}

func (t *tailBuf) String() string {
	t.mu.Lock()
	defer t.mu.Unlock()
	return string(t.b)
}

func startChild() (*childProc, error) {
	args := append([]string{os.Args[1], "-child"}, os.Args[2:]...)
	cmd := exec.Command(os.Args[0], args...)
	stdin, err := cmd.StdinPipe()
	if err != nil {
		return nil, err
	}
	so, err := cmd.StdoutPipe()
	if err != nil {
		return nil, err
	}
	tb := &tailBuf{}
	cmd.Stderr = tb
	if err := cmd.Start(); err != nil {
		return nil, err
	}
	return &childProc{cmd: cmd, stdin: stdin, stdout: bufio.NewReaderSize(so, 1<<20), stderr: tb}, nil
}

func (c *childProc) kill() {
	_ = c.stdin.Close()
	_ = c.cmd.Process.Kill()
	_ = c.cmd.Wait()
}

// supervise feeds cases one by one to a child process; a case on which the child dies or
// exceeds the watchdog is recorded with outcome fatal/timeout and the child is restarted.
func supervise(fam *family, in, out string, watchdog time.Duration, maxCrash int) error {
	crashes := 0
	inf, err := os.Open(in)
	if err != nil {
		return err
	}
	defer inf.Close()
	outf, err := os.Create(out)
	if err != nil {
		return err
	}
	defer outf.Close()
	w := bufio.NewWriterSize(outf, 1<<20)
	defer w.Flush()
	enc := json.NewEncoder(w)
	enc.SetEscapeHTML(false)
	var sw *bufio.Writer
	var senc *json.Encoder
	if fam.slim != nil {
		sf, err := os.Create(out + ".slim")
		if err != nil {
			return err
		}
		defer sf.Close()
		sw = bufio.NewWriterSize(sf, 1<<20)
		defer sw.Flush()
		senc = json.NewEncoder(sw)
		senc.SetEscapeHTML(false)
	}
	emitCrash := func(v interface{}) {
		_ = enc.Encode(v)
		if senc != nil {
			_ = senc.Encode(fam.slim(v))
		}
	}

	rd := bufio.NewReaderSize(inf, 1<<20)
	var cp *childProc
	defer func() {
		if cp != nil {
			cp.kill()
		}
	}()
	type res struct {
		lines [][]byte
		err   error
	}
	for {
		rawline, rerr := rd.ReadBytes('\n')
		var variants [][]byte
		if len(rawline) > 0 && strings.TrimSpace(string(rawline)) != "" {
			if fam.expand != nil {
				vs, err := fam.expand(rawline)
				if err != nil {
					return err
				}
				variants = vs
			} else {
				variants = [][]byte{rawline}
			}
		}
		for _, line := range variants {
			if crashes >= maxCrash {
				break
			}
			if !strings.HasSuffix(string(line), "\n") {
				line = append(append([]byte{}, line...), '\n')
			}
			if cp == nil {
				if cp, err = startChild(); err != nil {
					return err
				}
			}
			if _, err := cp.stdin.Write(line); err != nil {
				// child already dead
			}
			ch := make(chan res, 1)
			go func(c *childProc) {
				var r res
				for {
					l, e := c.stdout.ReadBytes('\n')
					if e != nil {
						r.err = e
						break
					}
					if strings.HasPrefix(string(l), endMark) {
						break
					}
					r.lines = append(r.lines, l)
				}
				ch <- r
			}(cp)
			select {
			case r := <-ch:
				if r.err != nil {
					detail := cp.stderr.String()
					cp.kill()
					cp = nil
					outcome := "fatal"
					if fam.crashed == nil {
						return fmt.Errorf("child died: %s", detail)
					}
					crashes++
					emitCrash(fam.crashed(line, outcome, tail(detail, 3000)))
				} else {
					for _, l := range r.lines {
						if len(l) > 2 && l[0] == 'S' && l[1] == '\t' {
							if sw != nil {
								sw.Write(l[2:])
							}
						} else if len(l) > 2 && l[0] == 'F' && l[1] == '\t' {
							w.Write(l[2:])
						}
						// anything else on the child's stdout is chatter of the library under test
						// (its logger writes there): not part of the protocol
					}
				}
			case <-time.After(watchdog):
				detail := cp.stderr.String()
				cp.kill()
				cp = nil
				if fam.crashed == nil {
					return fmt.Errorf("child timed out: %s", detail)
				}
				crashes++
				emitCrash(fam.crashed(line, "timeout", tail(detail, 3000)))
			}
		}
		if rerr != nil {
			break
		}
	}
	return nil
}

func tail(s string, n int) string {
	if len(s) > n {
		return s[len(s)-n:]
	}
	return s
}

func osReadFile(p string) ([]byte, error) { return os.ReadFile(p) }
