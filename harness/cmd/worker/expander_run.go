package main

// Execution of one expander-family case against the real package, for every entry point.

import (
	"encoding/json"
	"fmt"
	"os"
	"path/filepath"
	"reflect"
	"regexp"
	"strings"

	"github.com/go-openapi/spec"
)

// expInit: entries that read the root as an in-memory document locate other documents
// relative to the working directory; give the child a private one shaped like the layouts.
func expInit() error {
	needCwd := false
	for _, e := range strings.Split(expFlags.entry, ",") {
		if usesCwdRoot(e) {
			needCwd = true
		}
	}
	if !needCwd {
		return nil
	}
	base, err := os.MkdirTemp("", "verif-cwd-")
	if err != nil {
		return err
	}
	base, _ = filepath.EvalSymlinks(base)
	if err := os.MkdirAll(filepath.Join(base, "w", "r"), 0o755); err != nil {
		return err
	}
	cwdPrefix = base
	return os.Chdir(filepath.Join(base, "w", "r"))
}

// relBase: the root location as a relative path with a directory part (for these entries the child
// steps up to <scratch>/w for the duration of the call; the root is the file r/.root)
const relBase = "r/.root"

// mapCache is a caller-supplied ResolutionCache.
type mapCache struct {
	m map[string]interface{}
}

func (c *mapCache) Get(k string) (interface{}, bool) { v, ok := c.m[k]; return v, ok }
func (c *mapCache) Set(k string, v interface{})      { c.m[k] = v }

type element struct {
	section, name, kind string
}

func newObs(c *expCase) *expObs {
	obs := &expObs{Case: c.Case, Layout: c.Layout, Rot: c.Rot, Opts: c.Opts, Entry: c.Entry, Abstract: c.Nodes,
		Docs: []docObs{}, Nodes: []PNode{}, Entries: []entryObs{}, Loads: []AURL{}, LoadsS: []string{}, LoadOK: []bool{},
		Concrete: []string{}, DocURLs: []string{}, FailURL: c.FailURL, Preload: c.Preload, Det: true, RootSame: true, OptsSame: true,
		Collide: []bool{}, Events: [][]string{}, Cached: []AURL{}, Cache: c.Cache, DefSame: true, SameFull: true,
		Names: c.Names, Spell: c.Spell, Reps: c.Reps, Site: c.Site, Flags: c.Flags}
	if c.Entry == "SkipThenFull" {
		obs.Opts.Skip = false // what is judged is the final, full expansion
	}
	if isElementEntry(c.Entry) && !strings.HasPrefix(c.Entry, "ExpandSchemaWithBasePath") {
		obs.Opts = expOpts{} // these entry points take no options: defaults apply
	}
	if obs.FailURL == nil {
		obs.FailURL = []int{}
	}
	if obs.Preload == nil {
		obs.Preload = []int{}
	}
	if obs.Layout == nil {
		obs.Layout = []string{}
	}
	return obs
}

func isElementEntry(e string) bool {
	return e != "" && !strings.HasPrefix(e, "ExpandSpec") && e != "SkipThenFull"
}

func elementKind(entry string) string {
	switch {
	case strings.HasPrefix(entry, "ExpandSchema"):
		return "s"
	case strings.HasPrefix(entry, "ExpandParameter"):
		return "p"
	case strings.HasPrefix(entry, "ExpandResponse"):
		return "r"
	}
	return ""
}

func runExpCase(c *expCase) []*expObs {
	cc, err := concretise(c)
	if err != nil {
		obs := newObs(c)
		obs.Outcome = "harness-error"
		obs.Detail = err.Error()
		return []*expObs{obs}
	}
	docBytes := map[string][]byte{}
	for d := range cc.docs {
		docBytes[cc.urls[d]] = mustJSON(cc.docs[d])
	}
	refuse := map[string]bool{}
	for _, d := range c.FailURL {
		if d < len(cc.urls) {
			refuse[cc.urls[d]] = true
		}
	}
	if !isElementEntry(c.Entry) {
		return []*expObs{runOne(c, cc, docBytes, refuse, nil, nil, nil)}
	}
	// one observation per referable element of the root of the kind the entry expands
	want := elementKind(c.Entry)
	var out []*expObs
	var shared *mapCache
	var known []string // documents known to be in the shared cache
	if c.Cache == "reuse" {
		shared = &mapCache{m: map[string]interface{}{}}
	}
	for i, a := range c.Nodes {
		if a.Owner != 0 || a.Doc != 0 || a.Kind != want {
			continue
		}
		el := &element{section: cc.paths[i+1][0], name: cc.paths[i+1][1], kind: a.Kind}
		o := runOne(c, cc, docBytes, refuse, el, shared, known)
		if shared != nil {
			for k, u := range o.LoadsS {
				if o.LoadOK[k] {
					known = append(known, u)
				}
			}
		}
		out = append(out, o)
	}
	return out
}

func runOne(c *expCase, cc *concrete, docBytes map[string][]byte, refuse map[string]bool, el *element, shared *mapCache, known []string) *expObs {
	obs := newObs(c)
	for d := range cc.docs {
		obs.Concrete = append(obs.Concrete, string(docBytes[cc.urls[d]]))
		obs.DocURLs = append(obs.DocURLs, cc.urls[d])
		obs.Collide = append(obs.Collide, d > 0 && collides(cc.urls[0], cc.urls[d]))
	}
	if el != nil {
		obs.Elem = ascii("/" + el.section + "/" + el.name)
	}
	for _, u := range known {
		a, _ := parseAURL(u)
		obs.Cached = append(obs.Cached, a)
	}
	if c.Cache == "preload" {
		for _, d := range c.Preload {
			if d < len(cc.urls) {
				a, _ := parseAURL(cc.urls[d])
				obs.Cached = append(obs.Cached, a)
			}
		}
	}
	reps := c.Reps
	if reps < 1 || shared != nil {
		reps = 1
	}
	var firstOut []byte
	outs := map[string]bool{}
	for rep := 0; rep < reps; rep++ {
		ld := &recLoader{docs: docBytes, refuse: refuse}
		var events [][]string
		if rep == 0 {
			spec.VerifTrace = func(ev string, args ...string) {
				if len(events) < 20000 {
					e := make([]string, 0, len(args)+1)
					e = append(e, ev)
					for _, a := range args {
						e = append(e, ascii(a))
					}
					events = append(events, e)
				}
			}
			ld.onCall = func(u string) { events = append(events, []string{"fetch", ascii(u)}) }
		}
		res := callExpand(c, cc, docBytes, ld, rep, el, shared)
		spec.VerifTrace = nil
		if rep == 0 {
			obs.Events = events
			if obs.Events == nil {
				obs.Events = [][]string{}
			}
			obs.Outcome, obs.Err = res.outcome, ascii(res.errs)
			obs.RootSame, obs.OptsSame, obs.SameFull, obs.DefSame = res.rootSame, res.optsSame, res.sameFull, res.defSame
			firstOut = res.out
			for i, u := range ld.log {
				a, _ := parseAURL(u)
				obs.Loads = append(obs.Loads, a)
				obs.LoadsS = append(obs.LoadsS, ascii(u))
				obs.LoadOK = append(obs.LoadOK, ld.ok[i])
			}
		} else {
			if res.outcome != obs.Outcome {
				obs.Det = false
			}
			obs.RootSame = obs.RootSame && res.rootSame
			obs.OptsSame = obs.OptsSame && res.optsSame
		}
		outs[string(res.out)] = true
	}
	obs.Orders = len(outs)
	if len(outs) > 1 {
		obs.Det = false
	}
	// projection of the inputs
	p := &projector{}
	for d := range cc.docs {
		var v interface{}
		_ = json.Unmarshal(docBytes[cc.urls[d]], &v)
		a, _ := parseAURL(cc.urls[d])
		obs.Docs = append(obs.Docs, docObs{URL: a, Dead: refuse[cc.urls[d]]})
		p.document(d+1, v, cc.whole[d])
	}
	inputCount := len(p.nodes)
	byPath := map[string]int{}
	if obs.Outcome == "ok" && firstOut != nil {
		var v interface{}
		if err := json.Unmarshal(firstOut, &v); err != nil {
			obs.Outcome = "harness-error"
			obs.Detail = "output does not parse: " + err.Error()
		} else {
			if el != nil {
				// a partial result: the element alone, at its own place in a document at the root location
				v = map[string]interface{}{el.section: map[string]interface{}{el.name: v}}
			}
			a, _ := parseAURL(cc.urls[0])
			obs.Docs = append(obs.Docs, docObs{URL: a, Out: true})
			od := len(obs.Docs)
			p.document(od, v, false)
			for i := inputCount; i < len(p.nodes); i++ {
				if len(p.nodes[i].Path) == 2 {
					byPath[strings.Join(p.nodes[i].Path, "\x00")] = i + 1
				}
			}
			obs.Concrete = append(obs.Concrete, string(firstOut))
		}
	}
	for i := 0; i < inputCount; i++ {
		nd := p.nodes[i]
		if nd.Doc == 1 && len(nd.Path) == 2 {
			if el != nil && !(nd.Path[0] == ascii(el.section) && nd.Path[1] == ascii(el.name)) {
				continue
			}
			obs.Entries = append(obs.Entries, entryObs{A: i + 1, B: byPath[strings.Join(nd.Path, "\x00")]})
		}
	}
	obs.Nodes = p.nodes
	if obs.Nodes == nil {
		obs.Nodes = []PNode{}
	}
	return obs
}

// markCall separates the event traces of successive library calls of one observation.
func markCall() {
	if spec.VerifTrace != nil {
		spec.VerifTrace("call")
	}
}

var labelRe = regexp.MustCompile(`:"n(\d+)"`)

type callResult struct {
	out                                   []byte
	outcome, errs                         string
	rootSame, optsSame, sameFull, defSame bool
}

func jsonEq(a, b []byte) bool {
	var x, y interface{}
	if json.Unmarshal(a, &x) != nil || json.Unmarshal(b, &y) != nil {
		return false
	}
	return reflect.DeepEqual(x, y)
}

func sectionJSON(doc []byte, section string) []byte {
	var m map[string]json.RawMessage
	if json.Unmarshal(doc, &m) != nil {
		return nil
	}
	return m[section]
}

// callExpand runs the real entry point once.  rep permutes the member order of the source
// JSON so that Go's map iteration starts elsewhere.
func callExpand(c *expCase, cc *concrete, docBytes map[string][]byte, ld *recLoader, rep int, el *element, shared *mapCache) (res callResult) {
	res = callResult{rootSame: true, optsSame: true, sameFull: true, defSame: true}
	defer func() {
		if r := recover(); r != nil {
			res.outcome = "panic"
			res.errs = fmt.Sprint(r)
		}
	}()
	rootSrc := permuteMembers(docBytes[cc.urls[0]], rep)
	mkOpts := func() *spec.ExpandOptions {
		return &spec.ExpandOptions{RelativeBase: cc.urls[0], SkipSchemas: c.Opts.Skip, ContinueOnError: c.Opts.Cont,
			AbsoluteCircularRef: c.Opts.Abs, PathLoader: ld.load}
	}
	if strings.HasSuffix(c.Entry, ":nobase") {
		base := mkOpts
		mkOpts = func() *spec.ExpandOptions { o := base(); o.RelativeBase = ""; return o }
	}
	optsEq := func(o *spec.ExpandOptions) bool {
		want := cc.urls[0]
		if strings.HasSuffix(c.Entry, ":nobase") {
			want = ""
		}
		return o.RelativeBase == want && o.SkipSchemas == c.Opts.Skip && o.ContinueOnError == c.Opts.Cont &&
			o.AbsoluteCircularRef == c.Opts.Abs && o.PathLoader != nil
	}
	fail := func(outcome, msg string) callResult {
		res.outcome, res.errs = outcome, msg
		return res
	}
	switch c.Entry {
	case "", "ExpandSpec", "SkipThenFull", "ExpandSpec2", "ExpandSpec:nobase", "ExpandSpec2:nobase":
		var sw spec.Swagger
		if err := json.Unmarshal(rootSrc, &sw); err != nil {
			return fail("harness-error", "root does not decode: "+err.Error())
		}
		if strings.Contains(c.Flags, "handbuilt") {
			handBuilt(&sw)
		}
		if strings.Contains(c.Flags, "staleroot") && !refsBackIntoRoot(c) {
			// the specification was amended in memory after it was read: what the loader has at the root's
			// location is an older version (other labels).  The root's own "#/..." references mean the document
			// that textually contains them, i.e. the one in memory.  (Graphs in which another document refers back
			// into the root are left alone: those references can only be read from the stored version.)
			stale := map[string][]byte{}
			for k, v := range ld.docs {
				stale[k] = v
			}
			stale[cc.urls[0]] = labelRe.ReplaceAll(docBytes[cc.urls[0]], []byte(`:"stale-n$1"`))
			ld.docs = stale
		}
		opts := mkOpts()
		if c.Entry == "SkipThenFull" {
			opts.SkipSchemas = true
		}
		if strings.HasPrefix(c.Entry, "ExpandSpec2") {
			// a first expansion of the same root with the very same options value
			var sw0 spec.Swagger
			_ = json.Unmarshal(rootSrc, &sw0)
			if err0 := spec.ExpandSpec(&sw0, opts); err0 != nil {
				return fail("error", "first of two: "+err0.Error())
			}
			markCall()
		}
		err := spec.ExpandSpec(&sw, opts)
		if c.Entry != "SkipThenFull" {
			res.optsSame = optsEq(opts)
		}
		if err != nil {
			return fail("error", err.Error())
		}
		b, err := json.Marshal(&sw)
		if err != nil {
			return fail("error", "marshal: "+err.Error())
		}
		res.defSame = jsonEq(sectionJSON(b, "definitions"), sectionJSON(docBytes[cc.urls[0]], "definitions")) ||
			(sectionJSON(b, "definitions") == nil && sectionJSON(docBytes[cc.urls[0]], "definitions") == nil)
		if c.Entry == "SkipThenFull" {
			// second step: full expansion of the skip-mode result from the same location
			var sw2 spec.Swagger
			if err := json.Unmarshal(b, &sw2); err != nil {
				return fail("harness-error", "skip output does not decode: "+err.Error())
			}
			// the caller goes on with the options value it already has
			o2 := opts
			o2.SkipSchemas = false
			markCall()
			if err := spec.ExpandSpec(&sw2, o2); err != nil {
				return fail("error", "then-full: "+err.Error())
			}
			b2, err := json.Marshal(&sw2)
			if err != nil {
				return fail("error", "marshal: "+err.Error())
			}
			// the direct full expansion, for comparison
			var sw3 spec.Swagger
			_ = json.Unmarshal(rootSrc, &sw3)
			o3 := mkOpts()
			o3.SkipSchemas = false
			o3.PathLoader = (&recLoader{docs: ld.docs, refuse: ld.refuse}).load
			markCall()
			if err := spec.ExpandSpec(&sw3, o3); err != nil {
				res.sameFull = false
			} else {
				b3, _ := json.Marshal(&sw3)
				res.sameFull = jsonEq(b2, b3)
			}
			b = b2
		}
		res.out, res.outcome = b, "ok"
		return res
	}
	if el == nil {
		return fail("harness-error", "entry "+c.Entry+" needs an element")
	}
	// the element, decoded on its own so that it shares no storage with the root
	var rootGen map[string]interface{}
	if err := json.Unmarshal(rootSrc, &rootGen); err != nil {
		return fail("harness-error", err.Error())
	}
	sec, _ := rootGen[el.section].(map[string]interface{})
	elemJSON := mustJSON(sec[el.name])
	var sw spec.Swagger
	if err := json.Unmarshal(rootSrc, &sw); err != nil {
		return fail("harness-error", "root does not decode: "+err.Error())
	}
	var cache spec.ResolutionCache
	switch c.Cache {
	case "fresh":
		cache = &mapCache{m: map[string]interface{}{}}
	case "preload":
		mc := &mapCache{m: map[string]interface{}{}}
		for _, d := range c.Preload {
			if d < len(cc.urls) {
				var v interface{}
				_ = json.Unmarshal(docBytes[cc.urls[d]], &v)
				mc.m[cc.urls[d]] = v
			}
		}
		cache = mc
	case "reuse":
		cache = shared
	case "foreignempty", "foreignsuper":
		// a cache that served an expansion against ANOTHER root before: one without any of the sections,
		// or one that also has what this root lacks
		mc := &mapCache{m: map[string]interface{}{}}
		var other map[string]interface{}
		_ = json.Unmarshal(rootSrc, &other)
		if c.Cache == "foreignempty" {
			for _, sct := range []string{"definitions", "parameters", "responses"} {
				delete(other, sct)
			}
			other["paths"] = map[string]interface{}{}
		} else {
			for _, sct := range []string{"definitions", "parameters", "responses"} {
				m, _ := other[sct].(map[string]interface{})
				if m == nil {
					m = map[string]interface{}{}
					other[sct] = m
				}
				for i := 1; i <= len(c.Nodes); i++ {
					switch sct {
					case "definitions":
						m["Missing"+fmt.Sprint(i)] = map[string]interface{}{"title": "foreign"}
					case "parameters":
						m["Missing"+fmt.Sprint(i)] = map[string]interface{}{"name": "foreign", "in": "query", "type": "string"}
					default:
						m["Missing"+fmt.Sprint(i)] = map[string]interface{}{"description": "foreign"}
					}
				}
			}
		}
		var dsw spec.Swagger
		if json.Unmarshal(mustJSON(other), &dsw) == nil {
			ds := spec.Schema{}
			ds.Title = "foreign"
			var foreign interface{} = &dsw
			if c.Entry == "ExpandSchema:generic" {
				foreign = other
			}
			_ = spec.ExpandSchema(&ds, foreign, mc)
			markCall()
		}
		cache = mc
	case "foreignroot":
		// a cache that served an expansion against ANOTHER root (same shape, other labels) before
		mc := &mapCache{m: map[string]interface{}{}}
		decoy := labelRe.ReplaceAll(rootSrc, []byte(`:"decoy-n$1"`))
		var dsw spec.Swagger
		if json.Unmarshal(decoy, &dsw) == nil {
			var ds spec.Schema
			_ = json.Unmarshal(labelRe.ReplaceAll(elemJSON, []byte(`:"decoy-n$1"`)), &ds)
			oldL := spec.PathLoader
			spec.PathLoader = (&recLoader{docs: ld.docs, refuse: ld.refuse}).load
			_ = spec.ExpandSchema(&ds, &dsw, mc)
			spec.PathLoader = oldL
			markCall()
		}
		cache = mc
	}
	oldLoader := spec.PathLoader
	spec.PathLoader = ld.load
	defer func() { spec.PathLoader = oldLoader }()
	if strings.HasSuffix(c.Entry, ":relbase") {
		if err := os.Chdir(filepath.Join(cwdPrefix, "w")); err != nil {
			return fail("harness-error", err.Error())
		}
		defer func() { _ = os.Chdir(filepath.Join(cwdPrefix, "w", "r")) }()
	}

	var rootArg interface{}
	var before []byte
	snap := func(r interface{}) {
		rootArg = r
		before, _ = json.Marshal(r)
	}
	var err error
	var outv interface{}
	switch c.Entry {
	case "ExpandSchema:typed", "ExpandSchema:generic":
		var s spec.Schema
		if e := json.Unmarshal(elemJSON, &s); e != nil {
			return fail("harness-error", e.Error())
		}
		if c.Entry == "ExpandSchema:typed" {
			snap(&sw)
		} else {
			snap(rootGen)
		}
		err = spec.ExpandSchema(&s, rootArg, cache)
		outv = &s
	case "ExpandSchemaWithBasePath":
		var s spec.Schema
		if e := json.Unmarshal(elemJSON, &s); e != nil {
			return fail("harness-error", e.Error())
		}
		opts := mkOpts()
		err = spec.ExpandSchemaWithBasePath(&s, cache, opts)
		res.optsSame = optsEq(opts)
		outv = &s
	case "ExpandSchemaWithBasePath:nobase":
		// options without a RelativeBase: the documents are found relative to the working directory;
		// the root itself is served by the loader as the pseudo document .root
		var s spec.Schema
		if e := json.Unmarshal(elemJSON, &s); e != nil {
			return fail("harness-error", e.Error())
		}
		opts := &spec.ExpandOptions{PathLoader: ld.load, ContinueOnError: c.Opts.Cont, AbsoluteCircularRef: c.Opts.Abs}
		err = spec.ExpandSchemaWithBasePath(&s, cache, opts)
		res.optsSame = opts.RelativeBase == "" && opts.PathLoader != nil && opts.ContinueOnError == c.Opts.Cont &&
			opts.AbsoluteCircularRef == c.Opts.Abs && !opts.SkipSchemas
		outv = &s
	case "ExpandParameterWithRoot", "ExpandParameter", "ExpandParameter:relbase":
		var pr spec.Parameter
		if e := json.Unmarshal(elemJSON, &pr); e != nil {
			return fail("harness-error", e.Error())
		}
		if c.Entry == "ExpandParameterWithRoot" {
			snap(&sw)
			err = spec.ExpandParameterWithRoot(&pr, &sw, cache)
		} else if c.Entry == "ExpandParameter:relbase" {
			err = spec.ExpandParameter(&pr, relBase)
		} else {
			err = spec.ExpandParameter(&pr, cc.urls[0])
		}
		outv = &pr
	case "ExpandResponseWithRoot", "ExpandResponse", "ExpandResponse:relbase":
		var rs spec.Response
		if e := json.Unmarshal(elemJSON, &rs); e != nil {
			return fail("harness-error", e.Error())
		}
		if c.Entry == "ExpandResponseWithRoot" {
			snap(&sw)
			err = spec.ExpandResponseWithRoot(&rs, &sw, cache)
		} else if c.Entry == "ExpandResponse:relbase" {
			err = spec.ExpandResponse(&rs, relBase)
		} else {
			err = spec.ExpandResponse(&rs, cc.urls[0])
		}
		outv = &rs
	default:
		return fail("harness-error", "unknown entry "+c.Entry)
	}
	if rootArg != nil {
		after, _ := json.Marshal(rootArg)
		res.rootSame = string(before) == string(after)
	}
	if err != nil {
		return fail("error", err.Error())
	}
	b, merr := json.Marshal(outv)
	if merr != nil {
		return fail("error", "marshal: "+merr.Error())
	}
	res.out, res.outcome = b, "ok"
	return res
}

// handBuilt turns a decoded document into what a program assembling the model by hand may hold: the boolean-or-schema
// unions carry their schema with the Allows flag left at its zero value (&SchemaOrBool{Schema: s}).
func handBuilt(sw *spec.Swagger) {
	var walk func(s *spec.Schema)
	walk = func(s *spec.Schema) {
		if s == nil {
			return
		}
		for _, u := range []*spec.SchemaOrBool{s.AdditionalProperties, s.AdditionalItems} {
			if u != nil && u.Schema != nil {
				u.Allows = false
				walk(u.Schema)
			}
		}
		if s.Items != nil {
			walk(s.Items.Schema)
			for i := range s.Items.Schemas {
				walk(&s.Items.Schemas[i])
			}
		}
		walk(s.Not)
		for _, l := range [][]spec.Schema{s.AllOf, s.AnyOf, s.OneOf} {
			for i := range l {
				walk(&l[i])
			}
		}
		for _, m := range []map[string]spec.Schema{s.Properties, s.PatternProperties, s.Definitions} {
			for k, v := range m {
				v := v
				walk(&v)
				m[k] = v
			}
		}
		for k, d := range s.Dependencies {
			if d.Schema != nil {
				walk(d.Schema)
				s.Dependencies[k] = d
			}
		}
	}
	for k, v := range sw.Definitions {
		v := v
		walk(&v)
		sw.Definitions[k] = v
	}
	for k, p := range sw.Parameters {
		walk(p.Schema)
		sw.Parameters[k] = p
	}
	for k, r := range sw.Responses {
		walk(r.Schema)
		sw.Responses[k] = r
	}
	if sw.Paths != nil {
		for _, pi := range sw.Paths.Paths {
			for i := range pi.Parameters {
				walk(pi.Parameters[i].Schema)
			}
			for _, op := range []*spec.Operation{pi.Get, pi.Put, pi.Post, pi.Delete, pi.Options, pi.Head, pi.Patch} {
				if op == nil {
					continue
				}
				for i := range op.Parameters {
					walk(op.Parameters[i].Schema)
				}
				if op.Responses != nil {
					if op.Responses.Default != nil {
						walk(op.Responses.Default.Schema)
					}
					for _, r := range op.Responses.StatusCodeResponses {
						walk(r.Schema)
					}
				}
			}
		}
	}
}

// refsBackIntoRoot: some node outside the root document refers into the root document.
func refsBackIntoRoot(c *expCase) bool {
	if c.Spell == "varied" {
		// the root's own references may then name the root's file or location: those too are read from the stored version
		return true
	}
	for _, a := range c.Nodes {
		if a.T == "ref" && a.Doc > 0 && a.To > 0 && c.Nodes[a.To-1].Doc == 0 {
			return true
		}
	}
	return false
}
