package main

// Projection: real JSON documents -> abstract reference graph (nodes, positions, labels,
// $ref strings parsed syntactically into abstract URLs).  The same function is applied to
// inputs and outputs.  Resolution of the references is NOT done here: Urls.tla does it.

import (
	"crypto/sha1"
	"encoding/hex"
	"encoding/json"
	"fmt"
	"net/url"
	"sort"
	"strconv"
	"strings"
)

// AURL is the abstract URL of spec/Urls.tla.
type AURL struct {
	Scheme  string   `json:"scheme"`
	Host    string   `json:"host"`
	Abs     bool     `json:"abs"`
	Segs    []string `json:"segs"`
	Query   string   `json:"query"`
	HasFrag bool     `json:"hasfrag"`
	Ptr     []string `json:"ptr"`
}

// ascii maps a string to printable ASCII (TLC strings are not Unicode safe).
func ascii(s string) string {
	var b strings.Builder
	for _, r := range s {
		if r >= 0x20 && r < 0x7f && r != '\\' && r != '"' {
			b.WriteRune(r)
		} else {
			fmt.Fprintf(&b, "\\u%04x", r)
		}
	}
	return b.String()
}

func asciiAll(in []string) []string {
	out := make([]string, len(in))
	for i, s := range in {
		out[i] = ascii(s)
	}
	return out
}

// ptrTokens decodes a (percent-decoded) fragment as an RFC 6901 pointer.
func ptrTokens(frag string) []string {
	if frag == "" {
		return []string{}
	}
	if !strings.HasPrefix(frag, "/") {
		return []string{"#notapointer:" + frag}
	}
	toks := strings.Split(frag[1:], "/")
	for i, t := range toks {
		t = strings.ReplaceAll(t, "~1", "/")
		t = strings.ReplaceAll(t, "~0", "~")
		toks[i] = t
	}
	return toks
}

// parseAURL reads a reference string syntactically (net/url, no resolution).
func parseAURL(s string) (AURL, error) {
	u, err := url.Parse(s)
	if err != nil {
		return AURL{Segs: []string{"#unparsable"}, Ptr: []string{}}, err
	}
	a := AURL{Scheme: strings.ToLower(u.Scheme), Host: strings.ToLower(u.Host), Query: u.RawQuery, Segs: []string{}, Ptr: []string{}}
	if u.Opaque != "" {
		a.Segs = []string{"#opaque:" + u.Opaque}
	}
	p := u.Path
	if strings.HasPrefix(p, "/") {
		a.Abs = true
		p = p[1:]
	}
	if p != "" {
		a.Segs = strings.Split(p, "/")
	}
	if strings.Contains(s, "#") {
		a.HasFrag = true
		a.Ptr = ptrTokens(u.Fragment)
	}
	a.Segs = asciiAll(a.Segs)
	a.Ptr = asciiAll(a.Ptr)
	a.Host = ascii(a.Host)
	a.Query = ascii(a.Query)
	return a, nil
}

type Kid struct {
	Pos string `json:"pos"`
	ID  int    `json:"id"`
}

type PNode struct {
	Doc   int      `json:"doc"` // 1-based index into docs
	Path  []string `json:"path"`
	Kind  string   `json:"kind"`
	Lab   string   `json:"lab"`
	IsRef bool     `json:"isref"`
	Ref   AURL     `json:"ref"`
	RefS  string   `json:"refs"` // the reference as written
	Kids  []Kid    `json:"kids"`
	Full  string   `json:"full"` // digest of the whole sub-document, normalised through its kind (C05)
}

type projector struct {
	nodes []PNode
	// full, when set, computes PNode.Full from the raw JSON value of a node and its kind
	full func(kind string, v interface{}) string
}

func (p *projector) withFull(id int, kind string, v interface{}) int {
	if p.full != nil && id > 0 {
		p.nodes[id-1].Full = p.full(kind, v)
	}
	return id
}

func (p *projector) add(n PNode) int {
	if n.Kids == nil {
		n.Kids = []Kid{}
	}
	if n.Path == nil {
		n.Path = []string{}
	}
	if n.Ref.Segs == nil {
		n.Ref.Segs = []string{}
	}
	if n.Ref.Ptr == nil {
		n.Ref.Ptr = []string{}
	}
	p.nodes = append(p.nodes, n)
	return len(p.nodes)
}

func digest(v interface{}) string {
	b, _ := json.Marshal(v) // map keys are sorted by encoding/json
	h := sha1.Sum(b)
	return "L" + hex.EncodeToString(h[:6])
}

func sub(path []string, more ...string) []string {
	out := make([]string, 0, len(path)+len(more))
	out = append(out, path...)
	for _, m := range more {
		out = append(out, ascii(m))
	}
	return out
}

func sortedKeys(m map[string]interface{}) []string {
	ks := make([]string, 0, len(m))
	for k := range m {
		ks = append(ks, k)
	}
	sort.Strings(ks)
	return ks
}

// refOf returns the $ref string of an object, if it has one.
func refOf(m map[string]interface{}) (string, bool) {
	r, ok := m["$ref"]
	if !ok {
		return "", false
	}
	s, ok := r.(string)
	return s, ok
}

func (p *projector) refNode(doc int, path []string, kind, ref string) int {
	a, _ := parseAURL(ref)
	return p.add(PNode{Doc: doc, Path: path, Kind: kind, IsRef: true, Ref: a, RefS: ascii(ref)})
}

var schemaMapPos = []string{"properties", "patternProperties", "definitions", "dependencies"}
var schemaListPos = []string{"allOf", "anyOf", "oneOf"}
var schemaOnePos = []string{"not", "additionalProperties", "additionalItems"}

// schema projects a JSON value found at a schema position.
func (p *projector) schema(doc int, path []string, v interface{}) int {
	return p.withFull(p.schema0(doc, path, v), "s", v)
}

func (p *projector) schema0(doc int, path []string, v interface{}) int {
	m, ok := v.(map[string]interface{})
	if !ok {
		// not an object: a leaf whose label is the value itself
		return p.add(PNode{Doc: doc, Path: path, Kind: "s", Lab: digest([]interface{}{"nonobject", v})})
	}
	if r, ok := refOf(m); ok {
		return p.refNode(doc, path, "s", r)
	}
	rest := map[string]interface{}{}
	for k, x := range m {
		rest[k] = x
	}
	var kids []Kid
	self := p.add(PNode{Doc: doc, Path: path, Kind: "s"})
	for _, key := range schemaMapPos {
		mm, ok := m[key].(map[string]interface{})
		if !ok {
			continue
		}
		keep := map[string]interface{}{}
		for _, name := range sortedKeys(mm) {
			if key == "dependencies" {
				if _, isObj := mm[name].(map[string]interface{}); !isObj {
					keep[name] = mm[name] // string list: plain value
					continue
				}
			}
			id := p.schema(doc, sub(path, key, name), mm[name])
			kids = append(kids, Kid{Pos: ascii(key + "/" + name), ID: id})
		}
		if len(keep) > 0 {
			rest[key] = keep
		} else {
			delete(rest, key)
		}
	}
	for _, key := range schemaListPos {
		l, ok := m[key].([]interface{})
		if !ok {
			continue
		}
		for i, x := range l {
			id := p.schema(doc, sub(path, key, strconv.Itoa(i)), x)
			kids = append(kids, Kid{Pos: key + "/" + strconv.Itoa(i), ID: id})
		}
		delete(rest, key)
	}
	for _, key := range schemaOnePos {
		if mm, ok := m[key].(map[string]interface{}); ok {
			id := p.schema(doc, sub(path, key), mm)
			kids = append(kids, Kid{Pos: key, ID: id})
			delete(rest, key)
		}
	}
	switch it := m["items"].(type) {
	case map[string]interface{}:
		id := p.schema(doc, sub(path, "items"), it)
		kids = append(kids, Kid{Pos: "items", ID: id})
		delete(rest, "items")
	case []interface{}:
		for i, x := range it {
			id := p.schema(doc, sub(path, "items", strconv.Itoa(i)), x)
			kids = append(kids, Kid{Pos: "items/" + strconv.Itoa(i), ID: id})
		}
		delete(rest, "items")
	}
	p.nodes[self-1].Lab = digest(rest)
	p.nodes[self-1].Kids = kids
	if kids == nil {
		p.nodes[self-1].Kids = []Kid{}
	}
	return self
}

// paramOrResponse projects a parameter ("p") or response ("r") object.
func (p *projector) paramOrResponse(doc int, path []string, kind string, v interface{}) int {
	return p.withFull(p.paramOrResponse0(doc, path, kind, v), kind, v)
}

func (p *projector) paramOrResponse0(doc int, path []string, kind string, v interface{}) int {
	m, ok := v.(map[string]interface{})
	if !ok {
		return p.add(PNode{Doc: doc, Path: path, Kind: kind, Lab: digest([]interface{}{"nonobject", v})})
	}
	if r, ok := refOf(m); ok {
		return p.refNode(doc, path, kind, r)
	}
	rest := map[string]interface{}{}
	for k, x := range m {
		rest[k] = x
	}
	self := p.add(PNode{Doc: doc, Path: path, Kind: kind})
	var kids []Kid
	if s, ok := m["schema"]; ok {
		if _, isObj := s.(map[string]interface{}); isObj {
			id := p.schema(doc, sub(path, "schema"), s)
			kids = append(kids, Kid{Pos: "schema", ID: id})
			delete(rest, "schema")
		}
	}
	p.nodes[self-1].Lab = digest(rest)
	if kids != nil {
		p.nodes[self-1].Kids = kids
	}
	return self
}

var opNames = []string{"get", "put", "post", "delete", "options", "head", "patch"}

func (p *projector) pathItem(doc int, path []string, v interface{}) int {
	return p.withFull(p.pathItem0(doc, path, v), "i", v)
}

func (p *projector) pathItem0(doc int, path []string, v interface{}) int {
	m, ok := v.(map[string]interface{})
	if !ok {
		return p.add(PNode{Doc: doc, Path: path, Kind: "i", Lab: digest([]interface{}{"nonobject", v})})
	}
	if r, ok := refOf(m); ok {
		return p.refNode(doc, path, "i", r)
	}
	rest := map[string]interface{}{}
	for k, x := range m {
		rest[k] = x
	}
	self := p.add(PNode{Doc: doc, Path: path, Kind: "i"})
	var kids []Kid
	if l, ok := m["parameters"].([]interface{}); ok {
		for i, x := range l {
			id := p.paramOrResponse(doc, sub(path, "parameters", strconv.Itoa(i)), "p", x)
			kids = append(kids, Kid{Pos: "parameters/" + strconv.Itoa(i), ID: id})
		}
		delete(rest, "parameters")
	}
	for _, on := range opNames {
		om, ok := m[on].(map[string]interface{})
		if !ok {
			continue
		}
		orest := map[string]interface{}{}
		for k, x := range om {
			orest[k] = x
		}
		if l, ok := om["parameters"].([]interface{}); ok {
			for i, x := range l {
				id := p.paramOrResponse(doc, sub(path, on, "parameters", strconv.Itoa(i)), "p", x)
				kids = append(kids, Kid{Pos: on + "/parameters/" + strconv.Itoa(i), ID: id})
			}
			delete(orest, "parameters")
		}
		if rm, ok := om["responses"].(map[string]interface{}); ok {
			keep := map[string]interface{}{}
			for _, code := range sortedKeys(rm) {
				if strings.HasPrefix(strings.ToLower(code), "x-") {
					keep[code] = rm[code]
					continue
				}
				id := p.paramOrResponse(doc, sub(path, on, "responses", code), "r", rm[code])
				kids = append(kids, Kid{Pos: ascii(on + "/responses/" + code), ID: id})
			}
			if len(keep) > 0 {
				orest["responses"] = keep
			} else {
				delete(orest, "responses")
			}
		}
		rest[on] = orest
	}
	p.nodes[self-1].Lab = digest(rest)
	if kids != nil {
		p.nodes[self-1].Kids = kids
	}
	return self
}

// document projects a whole document.  asSchema: the document root is itself a schema
// (target of a whole-document $ref); otherwise it is read as a Swagger-shaped container
// with definitions / parameters / responses / paths sections.
func (p *projector) document(doc int, v interface{}, asSchema bool) int {
	if asSchema {
		return p.schema(doc, []string{}, v)
	}
	m, _ := v.(map[string]interface{})
	self := p.add(PNode{Doc: doc, Path: []string{}, Kind: "d"})
	rest := map[string]interface{}{}
	for k, x := range m {
		rest[k] = x
	}
	var kids []Kid
	section := func(name, kind string) {
		mm, ok := m[name].(map[string]interface{})
		if !ok {
			return
		}
		for _, key := range sortedKeys(mm) {
			if name == "paths" && strings.HasPrefix(strings.ToLower(key), "x-") {
				continue
			}
			var id int
			pth := sub([]string{}, name, key)
			switch kind {
			case "s":
				id = p.schema(doc, pth, mm[key])
			case "p", "r":
				id = p.paramOrResponse(doc, pth, kind, mm[key])
			case "i":
				id = p.pathItem(doc, pth, mm[key])
			}
			kids = append(kids, Kid{Pos: ascii(name + "/" + key), ID: id})
		}
		delete(rest, name)
	}
	section("definitions", "s")
	section("parameters", "p")
	section("responses", "r")
	section("paths", "i")
	p.nodes[self-1].Lab = digest(rest)
	if kids != nil {
		p.nodes[self-1].Kids = kids
	}
	return self
}
