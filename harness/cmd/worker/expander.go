package main

// Family "expander": abstract reference graphs (spec/ExpCases.tla) are concretised into
// multi-document Swagger specifications, expanded by the real package through an injected
// recording PathLoader, and input + output are projected back to abstract graphs.

import (
	"bytes"
	"encoding/json"
	"errors"
	"flag"
	"fmt"
	"net/url"
	"path"
	"regexp"
	"sort"
	"strconv"
	"strings"
)

type absNode struct {
	T     string `json:"t"`
	Kind  string `json:"kind"`
	Owner int    `json:"owner"`
	Doc   int    `json:"doc"`
	To    int    `json:"to"`
	// optional refinements set by richer generators
	Fault string `json:"fault,omitempty"` // for to=0: "nodoc" | "noptr" | "string" | "number" | "bool" | "array"
	ID    string `json:"idc,omitempty"`   // id class of a schema st node
}

type expOpts struct {
	Skip bool `json:"skip"`
	Cont bool `json:"cont"`
	Abs  bool `json:"abs"`
}

type expCase struct {
	Case    int       `json:"case"`
	Nodes   []absNode `json:"nodes"`
	Layout  []string  `json:"layout"` // layout class of documents 1..
	Rot     int       `json:"rot"`    // rotation of position keywords / spellings / name classes
	Opts    expOpts   `json:"opts"`
	Entry   string    `json:"entry"`   // ExpandSpec (default) ...
	Reps    int       `json:"reps"`    // repetitions (map orders)
	FailURL []int     `json:"failurl"` // documents the loader refuses
	Preload []int     `json:"preload"` // documents pre-loaded in the cache (C18)
	Names   string    `json:"names"`   // name class: plain | special
	Spell   string    `json:"spell"`   // spelling class: simple | varied
	Cache   string    `json:"cache"`   // cache mode of single-element entries: none | fresh | preload | reuse
	Site    string    `json:"site"`    // where the root lives: "" (local file) | http
	Flags   string    `json:"flags"`   // comma list: whole (whole-document schema documents), idsnamed
}

type docObs struct {
	URL  AURL `json:"url"`
	Out  bool `json:"out"`
	Dead bool `json:"dead"` // the loader refuses this document
}

type entryObs struct {
	A int `json:"a"`
	B int `json:"b"`
}

type expObs struct {
	Case     int        `json:"case"`
	Layout   []string   `json:"layout"`
	Rot      int        `json:"rot"`
	Opts     expOpts    `json:"opts"`
	Entry    string     `json:"entry"`
	Outcome  string     `json:"outcome"` // ok | error | panic | timeout | fatal
	Err      string     `json:"err"`
	Docs     []docObs   `json:"docs"`
	Nodes    []PNode    `json:"nodes"`
	Entries  []entryObs `json:"entries"`
	Loads    []AURL     `json:"loads"`
	LoadsS   []string   `json:"loadss"`
	LoadOK   []bool     `json:"loadok"`
	Det      bool       `json:"det"`      // all repetitions produced identical bytes
	Orders   int        `json:"orders"`   // distinct outputs seen over repetitions
	RootSame bool       `json:"rootsame"` // input root unchanged where it must be
	OptsSame bool       `json:"optssame"`
	Abstract []absNode  `json:"abstract"`
	Concrete []string   `json:"concrete"` // concrete documents, for replay
	DocURLs  []string   `json:"docurls"`
	FailURL  []int      `json:"failurl"`
	Preload  []int      `json:"preload"`
	Detail   string     `json:"detail"`
	Collide  []bool     `json:"collide"` // per document: the root's URL path is a proper string prefix of its path
	Events   [][]string `json:"events"`  // internal events of the first repetition (verif hooks)
	Names    string     `json:"names"`
	Spell    string     `json:"spell"`
	Reps     int        `json:"reps"`
	Elem     string     `json:"elem"` // single-element entries: pointer of the expanded element
	Cache    string     `json:"cache"`
	Site     string     `json:"site"`
	Flags    string     `json:"flags"`
	Cached   []AURL     `json:"cached"`   // documents known to be in the supplied cache before the call
	SameFull bool       `json:"samefull"` // SkipThenFull: bytes equal to the direct full expansion
	DefSame  bool       `json:"defsame"`  // definitions section of the output equals the input's
}

// Root location.  Ordinary entries: file:///w/r/root.json.  Entries that take the root as an
// in-memory document (ExpandSchema, Expand*WithRoot) resolve relative refs against the pseudo
// document ".root" in the process working directory: the child chdirs into <scratch>/w/r.
var cwdPrefix string // set when the child has chdir'ed: "<scratch>"

func usesCwdRoot(entry string) bool {
	return strings.HasPrefix(entry, "ExpandSchema:") || strings.HasSuffix(entry, "WithRoot") || strings.HasSuffix(entry, ":nobase") ||
		strings.HasSuffix(entry, ":relbase")
}

// siteOf: scheme and authority of the root's site ("file://" + private prefix, or a remote host)
func siteOf(site, prefix string) string {
	if site == "http" {
		return "http://r.example"
	}
	return "file://" + prefix
}

func rootLoc(entry string) (prefix, file string) {
	if usesCwdRoot(entry) {
		return cwdPrefix, ".root"
	}
	return "", "root.json"
}

func layoutURL(class string, d int, prefix, rootFile, site string) string {
	n := strconv.Itoa(d)
	p := siteOf(site, prefix)
	switch class {
	case "casefile":
		// documents 1,2 (3,4 ...) have names that differ by letter case only
		if d%2 == 1 {
			return p + "/w/r/Bb" + strconv.Itoa((d+1)/2) + ".json"
		}
		return p + "/w/r/bb" + strconv.Itoa((d+1)/2) + ".json"
	case "samepath":
		// another site, the very path of the root document
		return "http://h.example/w/r/" + rootFile
	case "samepathq":
		// the root's own location but for a query (a different document on a remote site)
		if site == "http" {
			return p + "/w/r/" + rootFile + "?v=" + n
		}
		return "http://h.example/w/r/" + rootFile + "?v=" + n
	case "otherport":
		// the root's host on another port, below the root's directory
		if site == "http" {
			return "http://r.example:9090/w/r/sub/b" + n + ".json"
		}
		return "http://h.example:9090/w/r/sub/b" + n + ".json"
	case "localfile":
		// a local file whatever the root's site
		return "file://" + prefix + "/w/f/b" + n + ".json"
	case "sibling":
		return p + "/w/r/b" + n + ".json"
	case "subdir":
		return p + "/w/r/sub/b" + n + ".json"
	case "subsub":
		return p + "/w/r/sub/deep/b" + n + ".json"
	case "parent":
		return p + "/w/b" + n + ".json"
	case "otherdir":
		return p + "/w/o/b" + n + ".json"
	case "othertop":
		return p + "/v/b" + n + ".json"
	case "remote":
		return "http://h.example/x/b" + n + ".json"
	case "remoteq":
		// a location with a query: the query is part of the document's identity
		return "http://h.example/x/b" + n + ".json?v=2"
	case "prefixfile":
		return p + "/w/r/" + rootFile + "x" + n
	case "prefixdir":
		return p + "/w/r/" + rootFile + ".d/b" + n + ".json"
	case "prefixtop":
		return p + "/w/r2/b" + n + ".json"
	}
	return p + "/w/r/b" + n + ".json"
}

var specialNames = []string{"a/b", "t~x", "p%x", "s p", "{id}", "été", "q?x", "h#x", "quo\"te", "back\\sl", "0", "~1", "%41"}

func nodeName(n int, class string, rot int) string {
	if class == "special" {
		return specialNames[(n+rot)%len(specialNames)] + strconv.Itoa(n)
	}
	if class == "casetwin" {
		// all names differ from one another by letter case only: the bits of n pick the capitals
		b := []byte("petname")
		for k := 0; k < len(b); k++ {
			if n&(1<<k) != 0 {
				b[k] -= 32
			}
		}
		return string(b)
	}
	return "N" + strconv.Itoa(n)
}

func escTok(t string) string {
	t = strings.ReplaceAll(t, "~", "~0")
	t = strings.ReplaceAll(t, "/", "~1")
	return t
}

// fragFor renders pointer tokens as a URI fragment (RFC 6901 escaping, then percent-encoding).
func fragFor(toks []string) string {
	if len(toks) == 0 {
		return ""
	}
	var b strings.Builder
	for _, t := range toks {
		b.WriteString("/")
		b.WriteString(escTok(t))
	}
	u := url.URL{Fragment: b.String()}
	return "#" + u.EscapedFragment()
}

// relPath computes a relative reference from the directory of document `from` to `to`
// (same scheme and host assumed).
func relPath(from, to *url.URL) string {
	fd := strings.Split(strings.TrimPrefix(path.Dir(from.Path), "/"), "/")
	if path.Dir(from.Path) == "/" {
		fd = nil
	}
	tp := strings.Split(strings.TrimPrefix(to.Path, "/"), "/")
	i := 0
	for i < len(fd) && i < len(tp)-1 && fd[i] == tp[i] {
		i++
	}
	var parts []string
	for j := i; j < len(fd); j++ {
		parts = append(parts, "..")
	}
	parts = append(parts, tp[i:]...)
	for k, s := range parts {
		if s != ".." {
			parts[k] = (&url.URL{Path: s}).EscapedPath()
		}
	}
	return strings.Join(parts, "/")
}

// spellRef writes a reference from document fromURL to (toURL, toks).
func spellRef(fromURL, toURL string, toks []string, style int, varied bool) string {
	frag := fragFor(toks)
	fu, _ := url.Parse(fromURL)
	tu, _ := url.Parse(toURL)
	same := fromURL == toURL
	sameSite := fu.Scheme == tu.Scheme && fu.Host == tu.Host
	if !varied {
		style = 0
	}
	if fu.RawQuery != "" && same && noFragOnly && frag != "" {
		// (schemas carry ids and the document's location a query: only the absolute spelling is unambiguous)
		return toURL + frag
	}
	if fu.RawQuery != "" {
		// The referring document's location carries a query.  RFC 3986 and the library (which lets a relative
		// reference inherit the query of its base - pinned by the repository's normalizer tests) read a relative
		// path differently here; only fragment-only and absolute spellings mean the same to both.
		if same {
			if frag == "" {
				return "#"
			}
			return frag
		}
		return toURL + frag
	}
	if same && noFragOnly && frag != "" {
		// schemas carry ids in this run: a fragment-only reference below an id is read against the id
		// (JSON-Schema scoping, which the graph model does not have); the document is named instead
		if style%2 == 0 {
			return path.Base(fu.Path) + frag
		}
		return toURL + frag
	}
	if same {
		switch style % 4 {
		case 1:
			if frag != "" {
				return path.Base(fu.Path) + frag // own document by name
			}
		case 2:
			if frag != "" {
				return toURL + frag
			}
		}
		if frag == "" {
			return "#"
		}
		return frag
	}
	if !sameSite {
		return toURL + frag
	}
	if tu.Scheme == "file" && style%3 == 2 {
		// the canonical location of a local file, carrying a query (irrelevant for local files)
		return toURL + "?rev=2" + frag
	}
	rel := relPath(fu, tu)
	switch style % 5 {
	case 1:
		return "./" + rel + frag
	case 2:
		return "zz/../" + rel + frag
	case 3:
		return tu.Path + frag // root-relative
	case 4:
		return toURL + frag
	}
	return rel + frag
}

// noFragOnly: set for cases whose schemas carry ids (see spellRef)
var noFragOnly bool

var schemaPositions = []string{"properties", "items", "allOf", "additionalProperties", "patternProperties", "anyOf",
	"not", "definitions", "oneOf", "dependencies", "additionalItems", "items[]"}

type placed struct {
	toks []string // pointer tokens from the owner to this child
}

// concretise builds the documents of a case.
type concrete struct {
	whole  []bool                   // per document: the document IS a schema (target of whole-document $refs)
	urls   []string                 // per document
	docs   []map[string]interface{} // per document
	paths  [][]string               // per node: pointer tokens in its document
	nodeOf []interface{}            // per node: its JSON object
	detail []string
}

// verbOf: the operation of a path item that holds its parameter / response children (all seven in rotation)
func verbOf(c *expCase, owner int) string {
	return opNames[(c.Rot+owner)%len(opNames)]
}

func sectionOf(kind string) string {
	switch kind {
	case "p":
		return "parameters"
	case "r":
		return "responses"
	case "i":
		return "paths"
	}
	return "definitions"
}

func concretise(c *expCase) (*concrete, error) {
	n := len(c.Nodes)
	noFragOnly = false
	for _, a := range c.Nodes {
		if a.ID != "" && strings.Contains(c.Flags, "idsnamed") {
			noFragOnly = true
		}
	}
	nd := 1
	for _, a := range c.Nodes {
		if a.Doc+1 > nd {
			nd = a.Doc + 1
		}
	}
	cc := &concrete{whole: make([]bool, nd), urls: make([]string, nd), docs: make([]map[string]interface{}, nd), paths: make([][]string, n+1), nodeOf: make([]interface{}, n+1)}
	prefix, rootFile := rootLoc(c.Entry)
	cc.urls[0] = siteOf(c.Site, prefix) + "/w/r/" + rootFile
	for d := 1; d < nd; d++ {
		class := "sibling"
		if d-1 < len(c.Layout) {
			class = c.Layout[d-1]
		}
		cc.urls[d] = layoutURL(class, d, prefix, rootFile, c.Site)
	}
	cc.docs[0] = map[string]interface{}{
		"swagger": "2.0",
		"info":    map[string]interface{}{"title": "t", "version": "1"},
		"paths":   map[string]interface{}{},
	}
	for d := 1; d < nd; d++ {
		cc.docs[d] = map[string]interface{}{}
	}
	hasDangling := false
	for _, a := range c.Nodes {
		if a.T == "ref" && a.To == 0 {
			hasDangling = true
		}
	}
	if hasDangling {
		// ill-typed targets: a string, a number, a boolean, an array
		for d := 0; d < nd; d++ {
			cc.docs[d]["x-bad-string"] = "str"
			cc.docs[d]["x-bad-number"] = 1
			cc.docs[d]["x-bad-bool"] = true
			cc.docs[d]["x-bad-array"] = []interface{}{1}
			cc.docs[d]["x-bad-null"] = nil
			cc.docs[d]["x-bad-emptyobj"] = map[string]interface{}{}
			// schema unions in their non-schema alternative, inside a (typed) definition: pointers that run
			// THROUGH them designate nothing
			defs, _ := cc.docs[d]["definitions"].(map[string]interface{})
			if defs == nil {
				defs = map[string]interface{}{}
				cc.docs[d]["definitions"] = defs
			}
			defs["XBadUnions"] = map[string]interface{}{"title": "unions", "additionalProperties": false, "additionalItems": true,
				"items": []interface{}{map[string]interface{}{"title": "tuple"}}, "dependencies": map[string]interface{}{"a": []interface{}{"b"}}}
		}
	}
	// documents (other than the root) whose only top-level element is a structured schema ARE that schema
	wholeNode := make([]int, nd)
	if strings.Contains(c.Flags, "whole") {
		cnt := make([]int, nd)
		for i, a := range c.Nodes {
			if a.Owner == 0 {
				cnt[a.Doc]++
				wholeNode[a.Doc] = i + 1
			}
		}
		for d := 1; d < nd; d++ {
			a := c.Nodes[wholeNode[d]-1]
			cc.whole[d] = cnt[d] == 1 && a.Kind == "s" && a.T != "ref"
		}
	}
	// 1. pointer tokens of every node (owners have smaller indices)
	kidIdx := make([]int, n+1)
	usedPos := make([]map[string]bool, n+1)
	for i := 1; i <= n; i++ {
		a := c.Nodes[i-1]
		if a.Owner == 0 && cc.whole[a.Doc] {
			cc.paths[i] = []string{}
			continue
		}
		if a.Owner == 0 {
			name := nodeName(i, c.Names, c.Rot)
			if c.Names == "perdoc" {
				// the k-th element of its section in its document is called E<k> in every document: the same
				// reference text ("#/definitions/E1") means another element in each of them
				k := 1
				for m := 1; m < i; m++ {
					b := c.Nodes[m-1]
					if b.Owner == 0 && b.Doc == a.Doc && sectionOf(b.Kind) == sectionOf(a.Kind) {
						k++
					}
				}
				name = "E" + strconv.Itoa(k)
			}
			if a.Kind == "i" {
				name = "/" + name // path keys start with a slash
			}
			cc.paths[i] = []string{sectionOf(a.Kind), name}
			continue
		}
		o := c.Nodes[a.Owner-1]
		k := kidIdx[a.Owner]
		kidIdx[a.Owner]++
		if usedPos[a.Owner] == nil {
			usedPos[a.Owner] = map[string]bool{}
		}
		var rel []string
		switch o.Kind {
		case "p", "r":
			rel = []string{"schema"}
		case "i":
			if a.Kind == "p" {
				if (c.Rot+i)%2 == 0 && !usedPos[a.Owner]["parameters"] {
					rel = []string{"parameters", "0"}
					usedPos[a.Owner]["parameters"] = true
				} else if !usedPos[a.Owner]["get/parameters"] {
					rel = []string{verbOf(c, a.Owner), "parameters", "0"}
					usedPos[a.Owner]["get/parameters"] = true
				} else {
					rel = []string{"parameters", "0"}
					usedPos[a.Owner]["parameters"] = true
				}
			} else {
				code := "200"
				if (c.Rot+i)%2 == 1 {
					code = "default"
				}
				if usedPos[a.Owner]["r"+code] {
					if code == "200" {
						code = "default"
					} else {
						code = "200"
					}
				}
				usedPos[a.Owner]["r"+code] = true
				rel = []string{verbOf(c, a.Owner), "responses", code}
			}
		default: // schema
		posLoop:
			for try := 0; try < len(schemaPositions); try++ {
				pos := schemaPositions[(c.Rot+a.Owner*5+k*7+try)%len(schemaPositions)]
				key := pos
				if pos == "items[]" {
					key = "items"
				}
				single := pos == "items" || pos == "not" || pos == "additionalProperties" || pos == "additionalItems"
				if single && usedPos[a.Owner][pos] {
					continue
				}
				if (pos == "items" && usedPos[a.Owner]["items[]"]) || (pos == "items[]" && usedPos[a.Owner]["items"]) {
					continue
				}
				switch pos {
				case "properties", "patternProperties", "definitions", "dependencies":
					kn := nodeName(i, c.Names, c.Rot+1)
					if pos == "patternProperties" {
						kn = "K" + strconv.Itoa(i) // keep it a valid regex and JSON-safe (see known findings)
					}
					rel = []string{key, kn}
				case "allOf", "anyOf", "oneOf", "items[]":
					cnt := 0
					for u := range usedPos[a.Owner] {
						if strings.HasPrefix(u, pos+"#") {
							cnt++
						}
					}
					usedPos[a.Owner][pos+"#"+strconv.Itoa(cnt)] = true
					rel = []string{key, strconv.Itoa(cnt)}
				default:
					rel = []string{key}
				}
				usedPos[a.Owner][pos] = true
				break posLoop
			}
		}
		cc.paths[i] = append(append([]string{}, cc.paths[a.Owner]...), rel...)
	}
	// 2. JSON objects
	for i := 1; i <= n; i++ {
		a := c.Nodes[i-1]
		lab := "n" + strconv.Itoa(i)
		switch a.T {
		case "ref":
			var ref string
			if a.To == 0 {
				ref = danglingRef(cc, c, i)
			} else {
				t := c.Nodes[a.To-1]
				ref = spellRef(cc.urls[a.Doc], cc.urls[t.Doc], cc.paths[a.To], c.Rot+i, c.Spell == "varied")
			}
			cc.nodeOf[i] = map[string]interface{}{"$ref": ref}
		default:
			m := map[string]interface{}{}
			switch a.Kind {
			case "s":
				m["title"] = lab
				// a type, in rotation (a scalar type next to sub-schemas is unusual but legal)
				switch (c.Rot + i) % 4 {
				case 1:
					m["type"] = "string"
				case 2:
					m["type"] = "object"
				}
				if a.ID != "" {
					m["id"] = idFor(a.ID, i)
				}
			case "p":
				m["name"] = lab
				if a.T == "st" {
					// a schema-carrying parameter; its location is "body" or (an OpenAPI 3 leftover, legal input for
					// the library, which walks the schema wherever it stands) something else
					m["in"] = []string{"body", "body", "query", "Body", "formData"}[(c.Rot+i)%5]
				} else {
					m["in"] = "query"
					m["type"] = "string"
				}
			case "r":
				m["description"] = lab
			case "i":
				m["x-label"] = lab
			}
			cc.nodeOf[i] = m
		}
	}
	// 2b. decoys: every top-level name also exists, with other content, in every OTHER document, so
	// that a reference resolved in the wrong document yields wrong content rather than an error
	if expFlags.decoys {
		for i := 1; i <= n; i++ {
			a := c.Nodes[i-1]
			if a.Owner != 0 {
				continue
			}
			for d := 0; d < nd; d++ {
				if d == a.Doc || cc.whole[d] {
					continue
				}
				lab := "decoy" + strconv.Itoa(i) + "d" + strconv.Itoa(d)
				var m map[string]interface{}
				switch a.Kind {
				case "s":
					m = map[string]interface{}{"title": lab}
				case "p":
					m = map[string]interface{}{"name": lab, "in": "query", "type": "string"}
				case "r":
					m = map[string]interface{}{"description": lab}
				default:
					m = map[string]interface{}{"x-label": lab}
				}
				_ = setAt(cc.docs[d], cc.paths[i], m)
			}
		}
	}
	// 3. attach children to owners / sections
	for i := 1; i <= n; i++ {
		a := c.Nodes[i-1]
		var root interface{} = cc.docs[a.Doc]
		if len(cc.paths[i]) == 0 {
			// the document is this schema: keep what was put into the document so far next to its members
			if m, ok := cc.nodeOf[i].(map[string]interface{}); ok {
				for k, v := range m {
					cc.docs[a.Doc][k] = v
				}
			}
			continue
		}
		if err := setAt(root, cc.paths[i], cc.nodeOf[i]); err != nil {
			return nil, fmt.Errorf("node %d at %v: %w", i, cc.paths[i], err)
		}
		// a schema dependency stands between property dependencies (lists of names)
		if pth := cc.paths[i]; len(pth) >= 2 && pth[len(pth)-2] == "dependencies" {
			_ = setAt(root, append(append([]string{}, pth[:len(pth)-1]...), "0-names"), []interface{}{"x"})
			_ = setAt(root, append(append([]string{}, pth[:len(pth)-1]...), "zz-names"), []interface{}{"y", "z"})
		}
	}
	return cc, nil
}

func flipCase(s string) string {
	b := []rune(s)
	for i, r := range b {
		switch {
		case r >= 'a' && r <= 'z':
			b[i] = r - 32
		case r >= 'A' && r <= 'Z':
			b[i] = r + 32
		}
	}
	return string(b)
}

func idFor(class string, i int) string {
	switch class {
	case "abs":
		return "http://ids.example/s" + strconv.Itoa(i) + ".json"
	case "relfile":
		return "ids" + strconv.Itoa(i) + ".json"
	case "reldir":
		return "idd" + strconv.Itoa(i) + "/"
	case "frag":
		return "#id" + strconv.Itoa(i)
	case "absodd":
		// an absolute id whose authority is not in canonical form (upper-case host, explicit default port)
		return "HTTP://IDS.Example:80/s" + strconv.Itoa(i) + ".json"
	case "badpct":
		return "100%/schemas/"
	case "badhost":
		return "http://[::1/s" + strconv.Itoa(i) + ".json"
	case "colon":
		return ":pet" + strconv.Itoa(i)
	}
	return class
}

var faultClasses = []string{"noptr", "nodoc", "string", "number", "bool", "array", "casevar", "thrubool", "thrutuple", "thrudeps", "unset"}

// oddTargets (-oddtargets): targets that exist but are not objects of the expected kind in a way
// the error discipline (C08) says nothing about: JSON null, an empty object
var oddTargetClasses = []string{"null", "emptyobj", "nulldoc"}

func danglingRef(cc *concrete, c *expCase, i int) string {
	a := c.Nodes[i-1]
	sec := sectionOf(a.Kind)
	fault := a.Fault
	if fault == "" {
		fault = faultClasses[(c.Rot+i)%len(faultClasses)]
		if expFlags.oddTargets {
			fault = oddTargetClasses[(c.Rot+i)%len(oddTargetClasses)]
		}
	}
	switch fault {
	case "nodoc":
		return "missing" + strconv.Itoa(i) + ".json#/" + sec + "/X"
	case "nulldoc":
		// a document whose whole content is the JSON value null (served by the recording loader)
		return "nulldoc" + strconv.Itoa(i) + ".json"
	case "string", "number", "bool", "array", "null", "emptyobj":
		return "#/x-bad-" + fault
	case "unset":
		// a member the (typed) definition could have but does not
		return "#/definitions/XBadUnions/not"
	case "thrubool":
		return "#/definitions/XBadUnions/additionalProperties/properties/x"
	case "thrutuple":
		return "#/definitions/XBadUnions/items/first/title"
	case "thrudeps":
		return "#/definitions/XBadUnions/dependencies/a/properties/x"
	case "casevar":
		// the name of the top-level element this ref lives in, with the case of its letters flipped
		top := i
		for c.Nodes[top-1].Owner != 0 {
			top = c.Nodes[top-1].Owner
		}
		if c.Nodes[top-1].Kind == a.Kind && c.Nodes[top-1].Doc == a.Doc {
			toks := append([]string{}, cc.paths[top]...)
			toks[len(toks)-1] = flipCase(toks[len(toks)-1])
			if toks[len(toks)-1] != cc.paths[top][len(toks)-1] {
				return fragFor(toks)
			}
		}
	}
	return "#/" + sec + "/Missing" + strconv.Itoa(i)
}

// setAt stores v at the pointer tokens inside a JSON tree of maps and slices, creating
// intermediate containers.  Numeric tokens below a list-valued keyword index a slice.
func setAt(root interface{}, toks []string, v interface{}) error {
	cur := root
	for k := 0; k < len(toks); k++ {
		last := k == len(toks)-1
		tok := toks[k]
		m, ok := cur.(map[string]interface{})
		if !ok {
			return fmt.Errorf("not an object at %v", toks[:k])
		}
		// list-valued position?
		if !last && isListKey(toks, k) {
			idx, _ := strconv.Atoi(toks[k+1])
			l, _ := m[tok].([]interface{})
			for len(l) <= idx {
				l = append(l, map[string]interface{}{})
			}
			if k+1 == len(toks)-1 {
				// keep what may already hang below (children are attached after owners)
				if old, ok := l[idx].(map[string]interface{}); ok && len(old) > 0 {
					if nm, ok := v.(map[string]interface{}); ok {
						for kk, vv := range old {
							if _, dup := nm[kk]; !dup {
								nm[kk] = vv
							}
						}
					}
				}
				l[idx] = v
				m[tok] = l
				return nil
			}
			m[tok] = l
			cur = l[idx]
			k++
			continue
		}
		if last {
			m[tok] = v
			return nil
		}
		nx, ok := m[tok]
		if !ok {
			nx = map[string]interface{}{}
			m[tok] = nx
		}
		cur = nx
	}
	return nil
}

func isListKey(toks []string, k int) bool {
	if k+1 >= len(toks) {
		return false
	}
	if _, err := strconv.Atoi(toks[k+1]); err != nil {
		return false
	}
	switch toks[k] {
	case "allOf", "anyOf", "oneOf", "items":
		return true
	case "parameters":
		// a parameter list (path item or operation), not the top-level parameters section
		return k > 0
	}
	return false
}

var nullDocRe = regexp.MustCompile(`/nulldoc\d+\.json$`)

type recLoader struct {
	docs   map[string][]byte
	refuse map[string]bool
	log    []string
	ok     []bool
	onCall func(string)
}

func (l *recLoader) load(u string) (json.RawMessage, error) {
	l.log = append(l.log, u)
	if l.onCall != nil {
		l.onCall(u)
	}
	if l.refuse[u] {
		l.ok = append(l.ok, false)
		return nil, errors.New("loader: refused " + u)
	}
	b, ok := l.docs[u]
	if !ok && nullDocRe.MatchString(u) {
		b, ok = []byte("null"), true
	}
	if !ok {
		l.ok = append(l.ok, false)
		return nil, errors.New("loader: no doc " + u)
	}
	l.ok = append(l.ok, true)
	return json.RawMessage(append([]byte(nil), b...)), nil
}

var expFlags struct {
	layouts    string
	opts       string
	rots       string
	names      string
	spell      string
	reps       int
	entry      string
	failsets   string
	caches     string
	ids        string
	oddTargets bool
	allFaults  bool
	decoys     bool
	wholeDocs  bool
	site       string
	idsNamed   bool
	handBuilt  bool
	mirror     bool
	gadgets    bool
	inGadget   bool
	staleRoot  bool
}

func init() {
	families["expander"] = &family{
		flags: func(fs *flag.FlagSet) {
			fs.StringVar(&expFlags.layouts, "layouts", "sibling", "comma list of layout tuples (a+b for documents 1,2)")
			fs.StringVar(&expFlags.opts, "opts", "000", "comma list of skip/cont/abs bit triples")
			fs.StringVar(&expFlags.rots, "rots", "0", "comma list of rotations")
			fs.StringVar(&expFlags.names, "names", "plain", "name class")
			fs.StringVar(&expFlags.spell, "spell", "simple", "spelling class")
			fs.IntVar(&expFlags.reps, "reps", 2, "repetitions per case")
			fs.StringVar(&expFlags.entry, "entry", "ExpandSpec", "entry point")
			fs.StringVar(&expFlags.failsets, "failsets", "none", "comma list of sets (a+b) of documents the loader refuses")
			fs.StringVar(&expFlags.caches, "caches", "none", "comma list of cache modes: none,fresh,reuse,preload:0+1")
			fs.BoolVar(&expFlags.decoys, "decoys", true, "every top-level name also exists, with other content, in the other documents")
			fs.BoolVar(&expFlags.allFaults, "allfaults", false, "graphs with exactly one dangling ref are run once per fault class")
			fs.BoolVar(&expFlags.oddTargets, "oddtargets", false, "dangling refs point at JSON null / an empty object instead (C04 only)")
			fs.StringVar(&expFlags.site, "site", "", "site of the root document: empty (local file) or http")
			fs.BoolVar(&expFlags.wholeDocs, "wholedocs", false, "a document whose only top-level element is a structured schema IS that schema (whole-document $refs)")
			fs.BoolVar(&expFlags.staleRoot, "staleroot", false, "the loader holds an older version of the root document than the one in memory")
			fs.BoolVar(&expFlags.gadgets, "gadgets", false, "every graph is run once per root gadget (see rootGadgets)")
			fs.BoolVar(&expFlags.mirror, "mirror", false, "every graph is doubled by its mirror image in the other document (see mirrored)")
			fs.BoolVar(&expFlags.handBuilt, "handbuilt", false, "the decoded root is turned into a hand-assembled model (schema unions without the Allows flag)")
			fs.BoolVar(&expFlags.idsNamed, "idsnamed", false, "with -ids: references into the own document name it instead of being fragment-only")
			fs.StringVar(&expFlags.ids, "ids", "", "comma list of id classes given (in rotation) to the structured schemas: abs,relfile,reldir,frag")
		},
		run:     expRun,
		init:    expInit,
		crashed: expCrashed,
		expand: func(line []byte) ([][]byte, error) {
			cases, err := expandCaseLine(line)
			if err != nil {
				return nil, err
			}
			out := make([][]byte, len(cases))
			for i, c := range cases {
				out[i] = mustJSON(c)
			}
			return out, nil
		},
		slim: expSlim,
	}
}

// expRun: the input line is either a bare node sequence (as written by ExpCases.tla) or a
// full expCase record.  Bare sequences are crossed with the layouts/opts/rots of the flags.
func expRun(line []byte, emit func(interface{})) error {
	cases, err := expandCaseLine(line)
	if err != nil {
		return err
	}
	for _, c := range cases {
		for _, o := range runExpCase(c) {
			emit(o)
		}
	}
	return nil
}

var caseCounter int

func expandCaseLine(line []byte) ([]*expCase, error) {
	trim := bytes.TrimSpace(line)
	if len(trim) > 0 && trim[0] == '{' {
		var c expCase
		if err := json.Unmarshal(trim, &c); err != nil {
			return nil, err
		}
		if len(c.Nodes) > 0 && c.Entry != "" {
			return []*expCase{&c}, nil
		}
		// record with "g" (graph) and "id"
		var w struct {
			ID int       `json:"id"`
			G  []absNode `json:"g"`
		}
		if err := json.Unmarshal(trim, &w); err != nil {
			return nil, err
		}
		return cross(w.ID, w.G), nil
	}
	var nodes []absNode
	if err := json.Unmarshal(trim, &nodes); err != nil {
		return nil, err
	}
	caseCounter++
	return cross(caseCounter, nodes), nil
}

// withIDs gives every structured schema node an id of the listed classes, in rotation.
func withIDs(nodes []absNode, rot int) []absNode {
	if expFlags.ids == "" {
		return nodes
	}
	classes := strings.Split(expFlags.ids, ",")
	out := append([]absNode(nil), nodes...)
	k := 0
	for i := range out {
		if out[i].Kind == "s" && out[i].T == "st" {
			out[i].ID = classes[(rot+k)%len(classes)]
			k++
		}
	}
	return out
}

// faultVariants: with -allfaults a graph with exactly one dangling ref yields one graph per fault class
func faultVariants(nodes []absNode) [][]absNode {
	if !expFlags.allFaults || expFlags.oddTargets {
		return [][]absNode{nodes}
	}
	idx := -1
	for i, a := range nodes {
		if a.T == "ref" && a.To == 0 {
			if idx >= 0 {
				return [][]absNode{nodes}
			}
			idx = i
		}
	}
	if idx < 0 {
		return [][]absNode{nodes}
	}
	var out [][]absNode
	for _, f := range faultClasses {
		v := append([]absNode(nil), nodes...)
		v[idx].Fault = f
		out = append(out, v)
	}
	return out
}

func cross(id int, nodes0 []absNode) []*expCase {
	var out []*expCase
	for _, nodes := range faultVariants(nodes0) {
		out = append(out, cross1(id, nodes)...)
	}
	return out
}

func caseFlags() string {
	var fl []string
	if expFlags.wholeDocs {
		fl = append(fl, "whole")
	}
	if expFlags.idsNamed {
		fl = append(fl, "idsnamed")
	}
	if expFlags.handBuilt {
		fl = append(fl, "handbuilt")
	}
	if expFlags.staleRoot {
		fl = append(fl, "staleroot")
	}
	return strings.Join(fl, ",")
}

// withFaults fixes the fault class of every dangling ref in the case record itself, so that a
// recorded case replays identically whatever flags the replaying worker is given.
func withFaults(nodes []absNode, rot int) []absNode {
	out := append([]absNode(nil), nodes...)
	for i := range out {
		if out[i].T == "ref" && out[i].To == 0 && out[i].Fault == "" {
			if expFlags.oddTargets {
				out[i].Fault = oddTargetClasses[(rot+i+1)%len(oddTargetClasses)]
			} else {
				out[i].Fault = faultClasses[(rot+i+1)%len(faultClasses)]
			}
		}
	}
	return out
}

// mirrored doubles a graph: every node gets a twin in the OTHER of the first two documents (root <-> document 1).
// With per-document names the twins carry the same names, so that the same reference text is written in both
// documents and means another element in each.
func mirrored(nodes []absNode) []absNode {
	n := len(nodes)
	out := append([]absNode(nil), nodes...)
	for _, a := range nodes {
		b := a
		switch a.Doc {
		case 0:
			b.Doc = 1
		case 1:
			b.Doc = 0
		}
		if b.Owner > 0 {
			b.Owner += n
		}
		if b.To > 0 {
			b.To += n
		}
		out = append(out, b)
	}
	return out
}

// rootGadgets: small structures added to the root document.  With per-document names they reuse the names (and so
// the reference texts) of what the other documents hold: a circular definition, a plain one, an inline response
// and an inline parameter whose schemas refer to a definition of the root.
var rootGadgets = [][]absNode{
	{{T: "st", Kind: "s"}, {T: "ref", Kind: "s", Owner: 1, To: 1}},
	{{T: "st", Kind: "r"}, {T: "ref", Kind: "s", Owner: 1, To: 3}, {T: "leaf", Kind: "s"}},
	{{T: "st", Kind: "p"}, {T: "ref", Kind: "s", Owner: 1, To: 3}, {T: "st", Kind: "s"}, {T: "ref", Kind: "s", Owner: 3, To: 3}},
}

func withGadget(nodes []absNode, g []absNode) []absNode {
	n := len(nodes)
	out := append([]absNode(nil), nodes...)
	for _, a := range g {
		if a.Owner > 0 {
			a.Owner += n
		}
		if a.To > 0 {
			a.To += n
		}
		out = append(out, a)
	}
	return out
}

func cross1(id int, nodes []absNode) []*expCase {
	if expFlags.gadgets && !expFlags.inGadget {
		var out []*expCase
		expFlags.inGadget = true
		for _, g := range rootGadgets {
			out = append(out, cross1(id, withGadget(nodes, g))...)
		}
		expFlags.inGadget = false
		return out
	}
	if expFlags.mirror {
		nodes = mirrored(nodes)
	}
	var out []*expCase
	for _, lay := range strings.Split(expFlags.layouts, ",") {
		for _, o := range strings.Split(expFlags.opts, ",") {
			for _, r := range strings.Split(expFlags.rots, ",") {
				rot, _ := strconv.Atoi(r)
				for _, fsx0 := range crossTail() {
					fsx, entry, cache := fsx0[0], fsx0[1], fsx0[2]
					c := &expCase{Case: id, Nodes: withFaults(withIDs(nodes, rot), rot), Layout: strings.Split(lay, "+"), Rot: rot,
						Entry: entry, Reps: expFlags.reps, Names: expFlags.names, Spell: expFlags.spell, Site: expFlags.site, Flags: caseFlags()}
					if strings.HasPrefix(cache, "preload:") {
						c.Cache = "preload"
						skipPre := false
						for _, ds := range strings.Split(strings.TrimPrefix(cache, "preload:"), "+") {
							d, _ := strconv.Atoi(ds)
							if d >= maxDoc(nodes)+1 {
								skipPre = true
							}
							c.Preload = append(c.Preload, d)
						}
						if skipPre {
							continue
						}
					} else {
						c.Cache = cache
					}
					if len(o) == 3 {
						c.Opts = expOpts{Skip: o[0] == '1', Cont: o[1] == '1', Abs: o[2] == '1'}
					}
					if fsx != "none" && fsx != "" {
						skipIt := false
						for _, ds := range strings.Split(fsx, "+") {
							d, _ := strconv.Atoi(ds)
							if d >= maxDoc(nodes)+1 {
								skipIt = true
							}
							c.FailURL = append(c.FailURL, d)
						}
						if skipIt {
							continue
						}
					}
					out = append(out, c)
				}
			}
		}
	}
	return out
}

// crossTail: failset x entry x cache mode
func crossTail() [][3]string {
	var out [][3]string
	for _, f := range strings.Split(expFlags.failsets, ",") {
		for _, e := range strings.Split(expFlags.entry, ",") {
			for _, c := range strings.Split(expFlags.caches, ",") {
				out = append(out, [3]string{f, e, c})
			}
		}
	}
	return out
}

func maxDoc(nodes []absNode) int {
	m := 0
	for _, a := range nodes {
		if a.Doc > m {
			m = a.Doc
		}
	}
	return m
}

func expCrashed(line []byte, outcome, detail string) interface{} {
	cases, err := expandCaseLine(line)
	if err != nil || len(cases) == 0 {
		return &expObs{Outcome: outcome, Detail: detail}
	}
	// re-run the variants one by one is not possible here; attribute to the whole line
	c := cases[0]
	return &expObs{Case: c.Case, Layout: c.Layout, Rot: c.Rot, Opts: c.Opts, Entry: c.Entry, Outcome: outcome,
		Detail: detail, Abstract: c.Nodes, Docs: []docObs{}, Nodes: []PNode{}, Entries: []entryObs{}, Loads: []AURL{},
		LoadsS: []string{}, LoadOK: []bool{}, Concrete: []string{}, DocURLs: []string{}, FailURL: []int{}, Preload: []int{}, Collide: []bool{}, Events: [][]string{}, Cached: []AURL{}}
}

// collides: same site and the root's path is a proper string prefix of the other path.
func collides(root, other string) bool {
	ru, e1 := url.Parse(root)
	ou, e2 := url.Parse(other)
	if e1 != nil || e2 != nil {
		return false
	}
	return ru.Scheme == ou.Scheme && ru.Host == ou.Host && ou.Path != ru.Path && strings.HasPrefix(ou.Path, ru.Path)
}

func mustJSON(v interface{}) []byte {
	var buf bytes.Buffer
	enc := json.NewEncoder(&buf)
	enc.SetEscapeHTML(false)
	if err := enc.Encode(v); err != nil {
		panic(err)
	}
	return bytes.TrimSpace(buf.Bytes())
}

// permuteMembers re-serialises a JSON document with the members of every object rotated by
// rep positions (map iteration in Go starts at a random offset of insertion order for small maps).
func permuteMembers(b []byte, rep int) []byte {
	if rep == 0 {
		return b
	}
	var v interface{}
	if err := json.Unmarshal(b, &v); err != nil {
		return b
	}
	var buf bytes.Buffer
	writePermuted(&buf, v, rep)
	return buf.Bytes()
}

func writePermuted(buf *bytes.Buffer, v interface{}, rep int) {
	switch x := v.(type) {
	case map[string]interface{}:
		keys := make([]string, 0, len(x))
		for k := range x {
			keys = append(keys, k)
		}
		sort.Strings(keys)
		if len(keys) > 1 {
			// rep-th permutation in a simple scheme: rotate, and reverse on odd rounds
			r := rep % len(keys)
			keys = append(keys[r:], keys[:r]...)
			if (rep/len(keys))%2 == 1 {
				for i, j := 0, len(keys)-1; i < j; i, j = i+1, j-1 {
					keys[i], keys[j] = keys[j], keys[i]
				}
			}
		}
		buf.WriteByte('{')
		for i, k := range keys {
			if i > 0 {
				buf.WriteByte(',')
			}
			buf.Write(mustJSON(k))
			buf.WriteByte(':')
			writePermuted(buf, x[k], rep)
		}
		buf.WriteByte('}')
	case []interface{}:
		buf.WriteByte('[')
		for i, e := range x {
			if i > 0 {
				buf.WriteByte(',')
			}
			writePermuted(buf, e, rep)
		}
		buf.WriteByte(']')
	default:
		buf.Write(mustJSON(v))
	}
}

// expSlim keeps what ExpOracle.tla reads.
func expSlim(v interface{}) interface{} {
	o := v.(*expObs)
	type snode struct {
		Doc   int      `json:"doc"`
		Path  []string `json:"path"`
		Kind  string   `json:"kind"`
		Lab   string   `json:"lab"`
		IsRef bool     `json:"isref"`
		Ref   AURL     `json:"ref"`
		Kids  []Kid    `json:"kids"`
	}
	nodes := make([]snode, len(o.Nodes))
	for i, n := range o.Nodes {
		nodes[i] = snode{n.Doc, n.Path, n.Kind, n.Lab, n.IsRef, n.Ref, n.Kids}
	}
	return map[string]interface{}{
		"case": o.Case, "layout": o.Layout, "opts": o.Opts, "entry": o.Entry, "outcome": o.Outcome,
		"docs": o.Docs, "nodes": nodes, "entries": o.Entries, "loads": o.Loads, "loadok": o.LoadOK,
		"det": o.Det, "rootsame": o.RootSame, "optssame": o.OptsSame, "abstract": o.Abstract,
		"failurl": o.FailURL, "preload": o.Preload, "collide": o.Collide, "events": o.Events,
		"elem": o.Elem, "cache": o.Cache, "site": o.Site, "flags": o.Flags, "cached": o.Cached, "samefull": o.SameFull, "defsame": o.DefSame,
	}
}
