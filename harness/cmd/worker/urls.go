package main

// Family "urls" (C12): (base, reference) pairs enumerated by spec/UrlCases.tla are rendered
// as strings, handed to the real package, and the URL that reaches the document loader is
// recorded (parsed back into the abstract alphabet).

import (
	"encoding/json"
	"fmt"
	"net/url"
	"strings"

	"github.com/go-openapi/spec"
)

var atomText = map[string]string{
	"a": "a", "bj": "b.json", "esc": "e s", "uni": "ué", "pct": "p%q", "root": "root.json", "d1": "d1", "d2": "d2",
	"h1": "h1.example", "h2": "h2.example", "h443": "h1.example:443", "h80": "h1.example:80", "p": "p", ".": ".", "..": "..",
}
var textAtom = func() map[string]string {
	m := map[string]string{}
	for k, v := range atomText {
		m[v] = k
	}
	return m
}()

func renderURL(u AURL) string {
	var b strings.Builder
	if u.Scheme != "" {
		b.WriteString(u.Scheme)
		b.WriteString("://")
		if u.Host != "" {
			b.WriteString(atomText[u.Host])
		}
	}
	if u.Abs {
		b.WriteString("/")
	}
	for i, s := range u.Segs {
		if i > 0 {
			b.WriteString("/")
		}
		t, ok := atomText[s]
		if !ok {
			t = s
		}
		b.WriteString((&url.URL{Path: t}).EscapedPath())
	}
	if u.HasFrag {
		b.WriteString("#")
		for _, t := range u.Ptr {
			b.WriteString("/" + atomText[t])
		}
	}
	return b.String()
}

func toAtoms(u AURL) AURL {
	for i, s := range u.Segs {
		if a, ok := textAtom[unascii(s)]; ok {
			u.Segs[i] = a
		}
	}
	if a, ok := textAtom[u.Host]; ok {
		u.Host = a
	}
	for i, s := range u.Ptr {
		if a, ok := textAtom[s]; ok {
			u.Ptr[i] = a
		}
	}
	return u
}

// unascii reverses ascii() for the few escapes used by the atoms.
func unascii(s string) string {
	return strings.ReplaceAll(s, "\\u00e9", "é")
}

type urlCase struct {
	Base AURL `json:"base"`
	Ref  AURL `json:"ref"`
	Want AURL `json:"want"`
	// replay only: the very observation to reproduce
	ID  int    `json:"id"`
	API string `json:"api"`
}

type urlObs struct {
	ID      int    `json:"id"`
	API     string `json:"api"`
	Base    AURL   `json:"base"`
	Ref     AURL   `json:"ref"`
	Want    AURL   `json:"want"`
	Got     AURL   `json:"got"`
	NetURL  AURL   `json:"neturl"`
	Outcome string `json:"outcome"` // loaded | noload | panic
	BaseS   string `json:"bases"`
	RefS    string `json:"refs"`
	GotS    string `json:"gots"`
	Err     string `json:"err"`
}

var urlCounter int

func init() {
	families["urls"] = &family{
		run: func(line []byte, emit func(interface{})) error {
			var c urlCase
			if err := json.Unmarshal(line, &c); err != nil {
				return err
			}
			urlCounter++
			if c.API != "" {
				if strings.HasPrefix(c.API, "TwoHop") {
					emit(runTwoHop(c.ID, c.API, c))
				} else if strings.HasPrefix(c.API, "UnderId") {
					emit(runUnderID(c.ID, c.API, c))
				} else {
					emit(runURLCase(c.ID, c.API, c))
				}
				return nil
			}
			for _, api := range []string{"ExpandSchemaWithBasePath", "ResolveRefWithBase"} {
				emit(runURLCase(urlCounter, api, c))
			}
			// the reference stands below a schema whose id is the enumerated base (a base URI embedded in the content,
			// RFC 3986 5.1.1), written as the document itself or as its folder
			if c.Base.Scheme != "file" || urlCounter%2 == 0 {
				for _, api := range []string{"UnderId:doc", "UnderId:folder"} {
					if c.Ref.Scheme == "" && !c.Ref.Abs && len(c.Ref.Segs) > 0 {
						emit(runUnderID(urlCounter, api, c))
					}
				}
			}
			// second hop: the reference stands in a document that was itself reached through a $ref
			for _, api := range []string{"TwoHop:schema", "TwoHop:response", "TwoHop:parameter"} {
				if (urlCounter+len(api))%3 == 0 || c.Ref.Scheme == "" && len(c.Ref.Segs) <= 2 {
					emit(runTwoHop(urlCounter, api, c))
				}
			}
			return nil
		},
	}
}

func runURLCase(id int, api string, c urlCase) (o *urlObs) {
	o = &urlObs{ID: id, API: api, Base: c.Base, Ref: c.Ref, Want: c.Want}
	o.BaseS, o.RefS = renderURL(c.Base), renderURL(c.Ref)
	// the independent implementation of RFC 3986 the model is cross-checked against
	bu, _ := url.Parse(o.BaseS)
	ru, err := url.Parse(o.RefS)
	if err == nil {
		nu := bu.ResolveReference(ru)
		nu.Fragment = ""
		na, _ := parseAURL(nu.String())
		o.NetURL = toAtoms(na)
	}
	var first string
	loader := func(u string) (json.RawMessage, error) {
		if first == "" {
			first = u
		}
		return json.RawMessage(`{"title":"doc","p":{"title":"x"}}`), nil
	}
	defer func() {
		if r := recover(); r != nil {
			o.Outcome = "panic"
			o.Err = ascii(fmt.Sprint(r))
		}
		if o.Got.Segs == nil {
			o.Got = AURL{Segs: []string{}, Ptr: []string{}}
		}
		if o.NetURL.Segs == nil {
			o.NetURL = AURL{Segs: []string{}, Ptr: []string{}}
		}
	}()
	opts := &spec.ExpandOptions{RelativeBase: o.BaseS, PathLoader: loader}
	switch api {
	case "ExpandSchemaWithBasePath":
		var s spec.Schema
		_ = json.Unmarshal([]byte(`{"$ref":`+string(mustJSON(o.RefS))+`}`), &s)
		err = spec.ExpandSchemaWithBasePath(&s, nil, opts)
	default:
		ref, e := spec.NewRef(o.RefS)
		if e != nil {
			o.Outcome, o.Err = "badref", ascii(e.Error())
			return o
		}
		_, err = spec.ResolveRefWithBase(nil, &ref, opts)
	}
	if err != nil {
		o.Err = ascii(err.Error())
	}
	if first == "" {
		o.Outcome = "noload"
		return o
	}
	o.Outcome = "loaded"
	o.GotS = ascii(first)
	g, _ := parseAURL(first)
	o.Got = toAtoms(g)
	return o
}

// runTwoHop: the enumerated base is the location of an INTERMEDIATE document.  The expansion starts
// from another root (whose location is a string prefix of it), reaches the intermediate document through
// an absolute $ref, and finds the enumerated reference there: the next request must be for
// Resolve(intermediate, ref), whatever the root was.
func runTwoHop(id int, api string, c urlCase) (o *urlObs) {
	o = &urlObs{ID: id, API: api, Base: c.Base, Ref: c.Ref, Want: c.Want}
	o.BaseS, o.RefS = renderURL(c.Base), renderURL(c.Ref)
	bu, _ := url.Parse(o.BaseS)
	if ru, err := url.Parse(o.RefS); err == nil {
		nu := bu.ResolveReference(ru)
		nu.Fragment = ""
		na, _ := parseAURL(nu.String())
		o.NetURL = toAtoms(na)
	}
	// the root's location is a string prefix of the intermediate document's: its directory, spelled
	// without a trailing slash (an extension-less root document), or its name without the extension
	rootS := o.BaseS[:strings.LastIndex(o.BaseS, "/")]
	if len(c.Base.Segs) < 2 || id%4 == 0 {
		rootS = strings.TrimSuffix(o.BaseS, ".json")
	}
	if rootS == o.BaseS {
		rootS = o.BaseS + ".root"
	}
	refJ := string(mustJSON(o.RefS))
	mid := `{"definitions":{"x":{"$ref":` + refJ + `}},"responses":{"x":{"description":"d","schema":{"$ref":` + refJ + `}}},` +
		`"parameters":{"x":{"name":"b","in":"body","schema":{"$ref":` + refJ + `}}}}`
	other := `{"title":"doc","p":{"title":"x"},"definitions":{"x":{"title":"x"}}}`
	var next string
	sawMid := false
	loader := func(u string) (json.RawMessage, error) {
		if u == o.BaseS {
			sawMid = true
			return json.RawMessage(mid), nil
		}
		if next == "" && sawMid {
			next = u
		}
		return json.RawMessage(other), nil
	}
	defer func() {
		if r := recover(); r != nil {
			o.Outcome = "panic"
			o.Err = ascii(fmt.Sprint(r))
		}
		if o.Got.Segs == nil {
			o.Got = AURL{Segs: []string{}, Ptr: []string{}}
		}
		if o.NetURL.Segs == nil {
			o.NetURL = AURL{Segs: []string{}, Ptr: []string{}}
		}
	}()
	opts := &spec.ExpandOptions{RelativeBase: rootS, PathLoader: loader}
	var err error
	switch api {
	case "TwoHop:schema":
		var s spec.Schema
		_ = json.Unmarshal([]byte(`{"$ref":`+string(mustJSON(o.BaseS+"#/definitions/x"))+`}`), &s)
		err = spec.ExpandSchemaWithBasePath(&s, nil, opts)
	default:
		sec := "responses"
		if api == "TwoHop:parameter" {
			sec = "parameters"
		}
		var sw spec.Swagger
		_ = json.Unmarshal([]byte(`{"swagger":"2.0","info":{"title":"t","version":"1"},"paths":{},"`+sec+`":{"e":{"$ref":`+
			string(mustJSON(o.BaseS+"#/"+sec+"/x"))+`}}}`), &sw)
		err = spec.ExpandSpec(&sw, opts)
	}
	if err != nil {
		o.Err = ascii(err.Error())
	}
	switch {
	case !sawMid:
		o.Outcome = "nomid"
	case next == "":
		o.Outcome = "noload2"
	default:
		o.Outcome = "loaded"
		o.GotS = ascii(next)
		g, _ := parseAURL(next)
		o.Got = toAtoms(g)
	}
	return o
}

// runUnderID: the root lives elsewhere; the reference stands below a schema whose id is the enumerated base.
func runUnderID(id int, api string, c urlCase) (o *urlObs) {
	o = &urlObs{ID: id, API: api, Base: c.Base, Ref: c.Ref, Want: c.Want}
	o.BaseS, o.RefS = renderURL(c.Base), renderURL(c.Ref)
	bu, _ := url.Parse(o.BaseS)
	if ru, err := url.Parse(o.RefS); err == nil {
		nu := bu.ResolveReference(ru)
		nu.Fragment = ""
		na, _ := parseAURL(nu.String())
		o.NetURL = toAtoms(na)
	}
	idS := o.BaseS
	if api == "UnderId:folder" {
		idS = o.BaseS[:strings.LastIndex(o.BaseS, "/")+1]
	}
	var first string
	loader := func(u string) (json.RawMessage, error) {
		if first == "" {
			first = u
		}
		return json.RawMessage(`{"title":"doc","p":{"title":"x"}}`), nil
	}
	defer func() {
		if r := recover(); r != nil {
			o.Outcome = "panic"
			o.Err = ascii(fmt.Sprint(r))
		}
		if o.Got.Segs == nil {
			o.Got = AURL{Segs: []string{}, Ptr: []string{}}
		}
		if o.NetURL.Segs == nil {
			o.NetURL = AURL{Segs: []string{}, Ptr: []string{}}
		}
	}()
	var s spec.Schema
	_ = json.Unmarshal([]byte(`{"id":`+string(mustJSON(idS))+`,"type":"object","properties":{"p":{"$ref":`+string(mustJSON(o.RefS))+`}}}`), &s)
	err := spec.ExpandSchemaWithBasePath(&s, nil, &spec.ExpandOptions{RelativeBase: "http://outer.example/o/outer.json", PathLoader: loader})
	if err != nil {
		o.Err = ascii(err.Error())
	}
	if first == "" {
		o.Outcome = "noload"
		return o
	}
	o.Outcome = "loaded"
	o.GotS = ascii(first)
	g, _ := parseAURL(first)
	o.Got = toAtoms(g)
	return o
}
