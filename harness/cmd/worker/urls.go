package main

// Family "urls" (C12): (base, reference) pairs enumerated by spec/UrlCases.tla are rendered
// as strings, handed to the real package, and the URL that reaches the document loader is
// recorded (parsed back into the abstract alphabet).

import (
	"encoding/json"
	"fmt"
	"net/url"
	"strings"

	"github.com/go-openapi/spec"
)

var atomText = map[string]string{
	"a": "a", "bj": "b.json", "esc": "e s", "uni": "ué", "pct": "p%q", "root": "root.json", "d1": "d1", "d2": "d2",
	"h1": "h1.example", "h2": "h2.example", "p": "p", ".": ".", "..": "..",
}
var textAtom = func() map[string]string {
	m := map[string]string{}
	for k, v := range atomText {
		m[v] = k
	}
	return m
}()

func renderURL(u AURL) string {
	var b strings.Builder
	if u.Scheme != "" {
		b.WriteString(u.Scheme)
		b.WriteString("://")
		if u.Host != "" {
			b.WriteString(atomText[u.Host])
		}
	}
	if u.Abs {
		b.WriteString("/")
	}
	for i, s := range u.Segs {
		if i > 0 {
			b.WriteString("/")
		}
		t, ok := atomText[s]
		if !ok {
			t = s
		}
		b.WriteString((&url.URL{Path: t}).EscapedPath())
	}
	if u.HasFrag {
		b.WriteString("#")
		for _, t := range u.Ptr {
			b.WriteString("/" + atomText[t])
		}
	}
	return b.String()
}

func toAtoms(u AURL) AURL {
	for i, s := range u.Segs {
		if a, ok := textAtom[unascii(s)]; ok {
			u.Segs[i] = a
		}
	}
	if a, ok := textAtom[u.Host]; ok {
		u.Host = a
	}
	for i, s := range u.Ptr {
		if a, ok := textAtom[s]; ok {
			u.Ptr[i] = a
		}
	}
	return u
}

// unascii reverses ascii() for the few escapes used by the atoms.
func unascii(s string) string {
	return strings.ReplaceAll(s, "\\u00e9", "é")
}

type urlCase struct {
	Base AURL `json:"base"`
	Ref  AURL `json:"ref"`
	Want AURL `json:"want"`
}

type urlObs struct {
	ID      int    `json:"id"`
	API     string `json:"api"`
	Base    AURL   `json:"base"`
	Ref     AURL   `json:"ref"`
	Want    AURL   `json:"want"`
	Got     AURL   `json:"got"`
	NetURL  AURL   `json:"neturl"`
	Outcome string `json:"outcome"` // loaded | noload | panic
	BaseS   string `json:"bases"`
	RefS    string `json:"refs"`
	GotS    string `json:"gots"`
	Err     string `json:"err"`
}

var urlCounter int

func init() {
	families["urls"] = &family{
		run: func(line []byte, emit func(interface{})) error {
			var c urlCase
			if err := json.Unmarshal(line, &c); err != nil {
				return err
			}
			urlCounter++
			for _, api := range []string{"ExpandSchemaWithBasePath", "ResolveRefWithBase"} {
				emit(runURLCase(urlCounter, api, c))
			}
			return nil
		},
	}
}

func runURLCase(id int, api string, c urlCase) (o *urlObs) {
	o = &urlObs{ID: id, API: api, Base: c.Base, Ref: c.Ref, Want: c.Want}
	o.BaseS, o.RefS = renderURL(c.Base), renderURL(c.Ref)
	// the independent implementation of RFC 3986 the model is cross-checked against
	bu, _ := url.Parse(o.BaseS)
	ru, err := url.Parse(o.RefS)
	if err == nil {
		nu := bu.ResolveReference(ru)
		nu.Fragment = ""
		na, _ := parseAURL(nu.String())
		o.NetURL = toAtoms(na)
	}
	var first string
	loader := func(u string) (json.RawMessage, error) {
		if first == "" {
			first = u
		}
		return json.RawMessage(`{"title":"doc","p":{"title":"x"}}`), nil
	}
	defer func() {
		if r := recover(); r != nil {
			o.Outcome = "panic"
			o.Err = ascii(fmt.Sprint(r))
		}
		if o.Got.Segs == nil {
			o.Got = AURL{Segs: []string{}, Ptr: []string{}}
		}
		if o.NetURL.Segs == nil {
			o.NetURL = AURL{Segs: []string{}, Ptr: []string{}}
		}
	}()
	opts := &spec.ExpandOptions{RelativeBase: o.BaseS, PathLoader: loader}
	switch api {
	case "ExpandSchemaWithBasePath":
		var s spec.Schema
		_ = json.Unmarshal([]byte(`{"$ref":`+string(mustJSON(o.RefS))+`}`), &s)
		err = spec.ExpandSchemaWithBasePath(&s, nil, opts)
	default:
		ref, e := spec.NewRef(o.RefS)
		if e != nil {
			o.Outcome, o.Err = "badref", ascii(e.Error())
			return o
		}
		_, err = spec.ResolveRefWithBase(nil, &ref, opts)
	}
	if err != nil {
		o.Err = ascii(err.Error())
	}
	if first == "" {
		o.Outcome = "noload"
		return o
	}
	o.Outcome = "loaded"
	o.GotS = ascii(first)
	g, _ := parseAURL(first)
	o.Got = toAtoms(g)
	return o
}
