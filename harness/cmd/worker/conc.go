package main

// Family "conc" (C17): programs of cache operations exported by spec/Cache.tla (its initial
// states) are run on real goroutines sharing one cache of the package's own implementation;
// the gate hooks inside the critical sections stamp a linearisation trace.  A second mode runs
// free-running stress rounds of the public API (to be built with -race).

import (
	"bytes"
	"encoding/json"
	"errors"
	"flag"
	"fmt"
	"os"
	"runtime"
	"strconv"
	"strings"
	"sync"
	"sync/atomic"
	"time"

	"github.com/go-openapi/jsonpointer"
	"github.com/go-openapi/spec"
)

type concEvent struct {
	G     string `json:"g"`
	Pt    string `json:"pt"`
	Cache int    `json:"cache"`
	Key   string `json:"key"`
	Val   int    `json:"val"`
	Pkg   bool   `json:"pkg"`
	seq   int64
}

type concObs struct {
	ID      int                 `json:"id"`
	Prog    map[string][]string `json:"prog"`
	Mode    string              `json:"mode"`
	Round   int                 `json:"round"`
	Events  []concEvent         `json:"events"`
	SeqOK   bool                `json:"seqok"` // every API call returned its sequential answer
	Detail  string              `json:"detail"`
	Outcome string              `json:"outcome"`
	Line    string              `json:"line"` // the input line, for a solo re-run
}

var concFlags struct {
	rounds int
	widen  bool
	mode   string
}
var concCounter int
var initRuns int64 // process-wide: how often initResolutionCache ran

func goid() int {
	var buf [64]byte
	n := runtime.Stack(buf[:], false)
	f := bytes.Fields(buf[:n])
	id, _ := strconv.Atoi(string(f[1]))
	return id
}

type recorder struct {
	seq    int64
	mu     sync.Mutex
	events []concEvent
	caches map[interface{}]int
	gids   map[int]int
	widen  bool
}

func (r *recorder) add(pt string, cache interface{}, key string, val int) {
	s := atomic.AddInt64(&r.seq, 1) // the stamp: taken inside the critical section for *.in / *.out
	g := goid()
	r.mu.Lock()
	ci := 0
	if cache != nil {
		var ok bool
		if ci, ok = r.caches[cache]; !ok {
			ci = len(r.caches) + 1
			r.caches[cache] = ci
		}
	}
	gi, ok := r.gids[g]
	if !ok {
		gi = len(r.gids) + 1
		r.gids[g] = gi
	}
	r.events = append(r.events, concEvent{G: "g" + strconv.Itoa(gi), Pt: pt, Cache: ci, Key: key, Val: val, Pkg: cache != nil && spec.VerifIsPkgCache(cache), seq: s})
	r.mu.Unlock()
}

func (r *recorder) sorted() []concEvent {
	ev := append([]concEvent(nil), r.events...)
	// stamps are unique: order by stamp
	for i := 1; i < len(ev); i++ {
		for j := i; j > 0 && ev[j-1].seq > ev[j].seq; j-- {
			ev[j-1], ev[j] = ev[j], ev[j-1]
		}
	}
	return ev
}

func init() {
	families["conc"] = &family{
		flags: func(fs *flag.FlagSet) {
			fs.IntVar(&concFlags.rounds, "rounds", 5, "repetitions per program assignment")
			fs.BoolVar(&concFlags.widen, "widen", true, "yield inside the critical sections to widen race windows")
			fs.StringVar(&concFlags.mode, "mode", "trace", "trace | stress")
		},
		run: func(line []byte, emit func(interface{})) error {
			if concFlags.mode == "stress" {
				var c struct {
					G      int `json:"g"`
					Rounds int `json:"rounds"`
					Procs  int `json:"procs"`
				}
				if err := json.Unmarshal(line, &c); err != nil {
					return err
				}
				concCounter++
				so := runStress(concCounter, c.G, c.Rounds, c.Procs)
				so.Line = string(line)
				emit(so)
				return nil
			}
			var prog map[string][]string
			if err := json.Unmarshal(line, &prog); err != nil {
				return err
			}
			for r := 0; r < concFlags.rounds; r++ {
				concCounter++
				emit(runPrograms(concCounter, prog, r))
			}
			return nil
		},
		crashed: func(line []byte, outcome, detail string) interface{} {
			return &concObs{Outcome: outcome, Detail: detail, Events: []concEvent{}, Prog: map[string][]string{}, Line: string(line)}
		},
	}
}

// runPrograms: one goroutine per process of the TLA+ state, all released together.
func runPrograms(id int, prog map[string][]string, round int) *concObs {
	o := &concObs{ID: id, Prog: prog, Mode: "trace", Round: round, SeqOK: true, Outcome: "ok"}
	rec := &recorder{caches: map[interface{}]int{}, gids: map[int]int{}, widen: concFlags.widen}
	spec.VerifGate = func(point string, cache interface{}, key string) {
		var c interface{}
		if cache != nil {
			if sc, ok := cache.(interface {
				Get(string) (interface{}, bool)
			}); ok && sc != nil {
				c = cache
			}
		}
		if point == "init.in" {
			c = nil
		}
		if len(point) > 4 && point[len(point)-4:] == ".pre" {
			return
		}
		v := 0
		if point == "init.in" {
			v = int(atomic.AddInt64(&initRuns, 1))
		}
		rec.add(point, c, key, v)
		if rec.widen && len(point) > 3 && point[len(point)-3:] == ".in" {
			runtime.Gosched()
			if round%2 == 1 {
				time.Sleep(20 * time.Microsecond)
			}
		}
	}
	defer func() { spec.VerifGate = nil }()
	shared := spec.VerifNewCache()
	var wg sync.WaitGroup
	start := make(chan struct{})
	var ctr int64
	for name, ops := range prog {
		wg.Add(1)
		go func(name string, ops []string) {
			defer wg.Done()
			<-start
			for _, op := range ops {
				switch op {
				case "set":
					v := int(atomic.AddInt64(&ctr, 1))
					rec.add("op.start", shared, "set", v)
					shared.Set("k", v)
					rec.add("op.end", shared, "set", v)
				case "get":
					rec.add("op.start", shared, "get", 0)
					x, _ := shared.Get("k")
					v, _ := x.(int)
					rec.add("op.end", shared, "get", v)
				case "clone":
					rec.add("op.start", shared, "clone", 0)
					_ = spec.VerifCloneCache(shared)
					rec.add("op.end", shared, "clone", 0)
				case "init":
					rec.add("op.start", nil, "init", 0)
					_ = spec.VerifCacheOrDefault(nil)
					rec.add("op.end", nil, "init", 0)
				}
			}
		}(name, ops)
	}
	close(start)
	wg.Wait()
	o.Events = rec.sorted()
	if o.Events == nil {
		o.Events = []concEvent{}
	}
	return o
}

// ---- stress: the public API from many goroutines, results compared with sequential answers
// (the fixture is acyclic, so every answer is a deterministic function of the input)
const stressRoot = `{"swagger":"2.0","info":{"title":"t","version":"1"},"paths":{"/p":{"get":{"parameters":[{"$ref":"#/parameters/P"}],"responses":{"200":{"description":"ok","schema":{"$ref":"#/definitions/A"}}}}}},` +
	`"parameters":{"P":{"name":"p","in":"body","schema":{"$ref":"b.json#/definitions/B"}}},` +
	`"definitions":{"A":{"type":"object","properties":{"d":{"$ref":"#/definitions/D"},"b":{"$ref":"b.json#/definitions/B"}}},"C":{"$ref":"sub/c.json#/definitions/C"},"D":{"type":"integer"}}}`

var stressDocs = map[string]string{
	"file:///w/r/b.json":     `{"definitions":{"B":{"type":"object","properties":{"c":{"$ref":"sub/c.json#/definitions/C"}}}}}`,
	"file:///w/r/sub/c.json": `{"definitions":{"C":{"type":"array","items":{"$ref":"../root.json#/definitions/D"}}}}`,
}

func stressLoader(u string) (json.RawMessage, error) {
	if d, ok := stressDocs[u]; ok {
		return json.RawMessage(d), nil
	}
	if u == "file:///w/r/root.json" {
		return json.RawMessage(stressRoot), nil
	}
	return nil, errors.New("no doc " + u)
}

// nbLoader serves the documents of the "no RelativeBase" operations: directories nb/d1, nb/d2 ... below
// the working directory, each holding x.json (which refers to its neighbour y.json) and y.json.
func nbLoader(u string) (json.RawMessage, error) {
	wd, _ := os.Getwd()
	rest := strings.TrimPrefix(u, "file://"+wd+"/nb/")
	if rest == u || len(rest) < 4 {
		return nil, errors.New("no doc " + u)
	}
	dir, file := rest[:strings.Index(rest, "/")], rest[strings.Index(rest, "/")+1:]
	switch file {
	case "x.json":
		return json.RawMessage(`{"definitions":{"X":{"type":"object","properties":{"y":{"$ref":"y.json#/definitions/Y"}}}}}`), nil
	case "y.json":
		return json.RawMessage(`{"definitions":{"Y":{"title":"y-of-` + dir + `"}}}`), nil
	}
	return nil, errors.New("no doc " + u)
}

// one options value without a RelativeBase, shared (read-only) by every goroutine
var sharedNoBase = &spec.ExpandOptions{PathLoader: nbLoader}

// tagged expands a reference to file:///w/r/tag.json through a loader that serves this goroutine's own content.
func tagged(gi int) (want, got string) {
	mine := fmt.Sprintf("owner-%d", gi)
	loader := func(u string) (json.RawMessage, error) {
		time.Sleep(200 * time.Microsecond)
		return json.RawMessage(`{"definitions":{"T":{"title":"` + mine + `"}}}`), nil
	}
	var s spec.Schema
	_ = json.Unmarshal([]byte(`{"properties":{"t":{"$ref":"tag.json#/definitions/T"}}}`), &s)
	if err := spec.ExpandSchemaWithBasePath(&s, nil, &spec.ExpandOptions{RelativeBase: "file:///w/r/root.json", PathLoader: loader}); err != nil {
		return mine, "error: " + err.Error()
	}
	return mine, s.Properties["t"].Title
}

var invalidSerial int64

var stressWarm bool

// refRun: the sequential reference answers are being computed (every call then brings its own options value)
var refRun bool

func noBaseOp(dir string) func() (string, error) {
	return func() (string, error) { // distinct documents, no cache, the shared options value
		o := sharedNoBase
		if refRun {
			o = &spec.ExpandOptions{PathLoader: nbLoader}
		}
		var sw spec.Swagger
		_ = json.Unmarshal([]byte(`{"swagger":"2.0","info":{"title":"t","version":"1"},"paths":{},"definitions":{"A":{"$ref":"nb/`+dir+`/x.json#/definitions/X"}}}`), &sw)
		if err := spec.ExpandSpec(&sw, o); err != nil {
			return "", err
		}
		b, _ := json.Marshal(sw.Definitions)
		return string(b), nil
	}
}

func stressOps(shared *spec.Swagger, sharedCache spec.ResolutionCache) []func() (string, error) {
	opts := func() *spec.ExpandOptions {
		return &spec.ExpandOptions{RelativeBase: "file:///w/r/root.json", PathLoader: stressLoader}
	}
	return []func() (string, error){
		noBaseOp("d1"), noBaseOp("d2"), noBaseOp("d3"),
		func() (string, error) { // a location and a schema id that are no valid URIs (the library warns and repairs)
			// (another invalid URI at every call: whatever the library remembers about them is written every time)
			n := atomic.AddInt64(&invalidSerial, 1)
			var s spec.Schema
			_ = json.Unmarshal([]byte(fmt.Sprintf(`{"id":"http://[::1/x%d","type":"object","properties":{"a":{"$ref":"#/definitions/A"}},"definitions":{"A":{"title":"a"}}}`, n)), &s)
			err := spec.ExpandSchemaWithBasePath(&s, nil, &spec.ExpandOptions{RelativeBase: fmt.Sprintf("%%zz/doc%d.json", n), PathLoader: stressLoader})
			s.ID = ""
			b, _ := json.Marshal(s)
			return fmt.Sprintf("%s err=%v", b, err != nil), nil
		},
		func() (string, error) { // a path item stored, in Go, under a key without the leading slash
			p, _ := jsonpointer.New("/paths/owners")
			v, _, err := p.Get(shared)
			b, _ := json.Marshal(v)
			return fmt.Sprintf("%s err=%v", b, err), nil
		},
		func() (string, error) { // ExpandSpec on an own copy, no cache
			var sw spec.Swagger
			_ = json.Unmarshal([]byte(stressRoot), &sw)
			if err := spec.ExpandSpec(&sw, opts()); err != nil {
				return "", err
			}
			b, _ := json.Marshal(sw.Paths)
			return string(b), nil
		},
		func() (string, error) { // ExpandSchema against an own typed root
			var sw spec.Swagger
			_ = json.Unmarshal([]byte(stressRoot), &sw)
			s := spec.RefSchema("#/definitions/A")
			old := spec.PathLoader
			_ = old
			if err := spec.ExpandSchemaWithBasePath(s, nil, opts()); err != nil {
				return "", err
			}
			b, _ := json.Marshal(s)
			return string(b), nil
		},
		func() (string, error) { // expansion with a cache shared by all goroutines, same documents
			s := spec.RefSchema("b.json#/definitions/B")
			if err := spec.ExpandSchemaWithBasePath(s, sharedCache, opts()); err != nil {
				return "", err
			}
			b, _ := json.Marshal(s)
			return string(b), nil
		},
		func() (string, error) { // resolution
			ref := spec.MustCreateRef("sub/c.json#/definitions/C")
			s, err := spec.ResolveRefWithBase(nil, &ref, opts())
			if err != nil {
				return "", err
			}
			b, _ := json.Marshal(s)
			return string(b), nil
		},
		func() (string, error) { // encode a shared document nobody mutates
			b, err := json.Marshal(shared)
			return string(b), err
		},
		func() (string, error) { // pointer look-up on the shared document
			p, _ := jsonpointer.New("/definitions/A/properties/b")
			v, _, err := p.Get(shared)
			if err != nil {
				return "", err
			}
			b, _ := json.Marshal(v)
			return string(b), nil
		},
		func() (string, error) { // a schema referring to whole built-in meta-schema documents
			var s spec.Schema
			_ = json.Unmarshal([]byte(`{"type":"object","properties":{"m":{"$ref":"http://json-schema.org/draft-04/schema#"}}}`), &s)
			if err := spec.ExpandSchemaWithBasePath(&s, nil, opts()); err != nil {
				return "", err
			}
			// the meta-schema is cyclic: compare a deterministic part only
			b, _ := json.Marshal(s.Properties["m"].Properties["maxLength"])
			return string(b), nil
		},
		func() (string, error) { // built-in meta-schema through the package cache
			ref := spec.MustCreateRef("http://json-schema.org/draft-04/schema#/definitions/positiveInteger")
			s, err := spec.ResolveRefWithBase(nil, &ref, opts())
			if err != nil {
				return "", err
			}
			b, _ := json.Marshal(s)
			return string(b), nil
		},
	}
}

func runStress(id, g, rounds, procs int) *concObs {
	o := &concObs{ID: id, Mode: "stress", SeqOK: true, Outcome: "ok", Events: []concEvent{}, Prog: map[string][]string{}}
	if procs > 0 {
		defer runtime.GOMAXPROCS(runtime.GOMAXPROCS(procs))
	}
	var shared spec.Swagger
	_ = json.Unmarshal([]byte(stressRoot), &shared)
	if shared.Paths == nil {
		shared.Paths = &spec.Paths{}
	}
	if shared.Paths.Paths == nil {
		shared.Paths.Paths = map[string]spec.PathItem{}
	}
	shared.Paths.Paths["owners"] = spec.PathItem{PathItemProps: spec.PathItemProps{Get: spec.NewOperation("owners")}}
	cache := spec.VerifNewCache()
	ops := stressOps(&shared, cache)
	want := make([]string, len(ops))
	reference := func() error {
		refRun = true
		defer func() { refRun = false }()
		for i, op := range ops {
			w, err := op()
			if err != nil {
				return err
			}
			want[i] = w
		}
		return nil
	}
	// the first case of a process starts COLD: the very first use of the package (its lazily initialised
	// default cache included) is made by the concurrent goroutines; the reference answers are computed afterwards
	cold := !stressWarm
	stressWarm = true
	if !cold {
		if err := reference(); err != nil {
			o.Outcome, o.Detail = "harness-error", "sequential reference failed: "+err.Error()
			return o
		}
	}
	type answer struct {
		op  int
		got string
		err error
	}
	answers := make([][]answer, g)
	var wg sync.WaitGroup
	var bad int64
	var firstBad atomic.Value
	start := make(chan struct{})
	for gi := 0; gi < g; gi++ {
		wg.Add(1)
		go func(gi int) {
			defer wg.Done()
			<-start
			for r := 0; r < rounds; r++ {
				i := (gi + r) % len(ops)
				got, err := ops[i]()
				answers[gi] = append(answers[gi], answer{i, got, err})
				if r%4 == 0 {
					// documents of the same name whose content differs from caller to caller: every
					// goroutine reads its own through its own loader (which takes its time)
					if w, g := tagged(gi); w != g {
						atomic.AddInt64(&bad, 1)
						firstBad.CompareAndSwap(nil, fmt.Sprintf("goroutine %d expanded through its own loader and got %.200s, wanted %.200s", gi, g, w))
					}
				}
			}
		}(gi)
	}
	close(start)
	done := make(chan struct{})
	go func() { wg.Wait(); close(done) }()
	select {
	case <-done:
	case <-time.After(60 * time.Second):
		o.Outcome, o.Detail = "deadlock", "goroutines did not finish within 60 s"
		return o
	}
	if cold {
		if err := reference(); err != nil {
			o.Outcome, o.Detail = "harness-error", "sequential reference failed: "+err.Error()
			return o
		}
	}
	for _, as := range answers {
		for _, a := range as {
			if a.err != nil || a.got != want[a.op] {
				atomic.AddInt64(&bad, 1)
				firstBad.CompareAndSwap(nil, fmt.Sprintf("op %d: err=%v got=%.200s want=%.200s", a.op, a.err, a.got, want[a.op]))
			}
		}
	}
	if bad > 0 {
		o.SeqOK = false
		if s, ok := firstBad.Load().(string); ok {
			o.Detail = ascii(s)
		}
	}
	return o
}
