package main

// Family "sessions" (C16): histories of public calls and world changes exported by
// spec/Sessions.tla are replayed in ONE process (package-level state persists across calls and
// across histories).  Every call is made without a caller-supplied cache; its result reveals
// which version of which document it read and which root it worked on.

import (
	"encoding/json"
	"errors"
	"fmt"
	"os"
	"path/filepath"
	"sort"
	"strings"

	"github.com/go-openapi/spec"
)

type sessStep struct {
	K    string `json:"k"`
	X    string `json:"x"`
	Root string `json:"root"`
	D1   int    `json:"d1"`
	D2   int    `json:"d2"`
	D3   int    `json:"d3"`
}

type sessStepObs struct {
	Want   sessStep `json:"want"`
	Got    sessStep `json:"got"`
	Err    string   `json:"err"`
	Opts   bool     `json:"optssame"`
	Pkg    bool     `json:"pkgcache"`   // package cache holds exactly the two built-ins
	Meta   bool     `json:"metaintact"` // built-in meta-schemas resolve, without loader, to their pristine content
	Loads  []string `json:"loads"`
	OK     bool     `json:"ok"`
	Why    string   `json:"why"`
	PkgKey []string `json:"pkgkeys"`
}

type sessObs struct {
	ID    int           `json:"id"`
	Steps []sessStepObs `json:"steps"`
	OK    bool          `json:"ok"`
}

var sessCounter int
var sessWorld = map[string]int{"d1": 1, "d2": 1, "d3": 1}
var metaDigest = map[string]string{}
var sessOpts, sessOptsNoBase *spec.ExpandOptions
var sessDirs []string // two working directories holding the same documents
var sessDir int

const sessBase = "file:///w/r/root.json"

func sessDoc(d string, ver int) string {
	// every document carries its version in the titles it offers
	return fmt.Sprintf(`{"definitions":{"T":{"title":"%s:v%d","type":"string"}}}`, d, ver)
}

func sessRoot(which string) string {
	if which == "A" {
		return `{"swagger":"2.0","info":{"title":"A","version":"1"},"paths":{},"definitions":{"Own":{"title":"root:A"},` +
			`"X":{"type":"object","properties":{"own":{"$ref":"#/definitions/Own"},"d1":{"$ref":"d1.json#/definitions/T"}}}}}`
	}
	return `{"swagger":"2.0","info":{"title":"B","version":"1"},"paths":{},"definitions":{"Own":{"title":"root:B"},` +
		`"X":{"type":"object","properties":{"own":{"$ref":"#/definitions/Own"},"d1":{"$ref":"d1.json#/definitions/T"},"d3":{"$ref":"d3.json#/definitions/T"}}}}}`
}

// worldLoader serves the current world; documents are identified by their base name so that
// the same world answers for the RelativeBase location and for the working directory.
// worldBufs: the world's loader reads every document into a buffer it keeps per location and hands that buffer out
// (as a loader reading through a reused read buffer does): what it returned last time is overwritten by the next read
var worldBufs = map[string][]byte{}

func worldLoader(log *[]string, live *bool) func(string) (json.RawMessage, error) {
	inner := worldLoader0(log)
	return func(u string) (json.RawMessage, error) {
		// a loader belongs to the call it was given to: using it once that call is over is a leak of state
		if !*live {
			return nil, errors.New("world: the loader of an EARLIER call was used for " + u)
		}
		b, err := inner(u)
		if err != nil {
			return nil, err
		}
		buf := append(worldBufs[u][:0], b...)
		worldBufs[u] = buf
		return json.RawMessage(buf), nil
	}
}

func worldLoader0(log *[]string) func(string) (json.RawMessage, error) {
	return func(u string) (json.RawMessage, error) {
		*log = append(*log, u)
		base := u[strings.LastIndex(u, "/")+1:]
		// documents published on the hosts of the built-in meta-schemas, at other paths: ordinary documents
		switch u {
		case "http://json-schema.org/draft-07/schema":
			return json.RawMessage(sessDoc("d2", sessWorld["d2"])), nil
		case "http://swagger.io/v3/schema.json":
			return json.RawMessage(sessDoc("d3", sessWorld["d3"])), nil
		}
		// the world has documents next to the RelativeBase location and in the CURRENT working directory only
		if dir := strings.TrimSuffix(u, "/"+base); dir != "file:///w/r" && dir != "file://"+sessDirs[sessDir] {
			return nil, errors.New("world: no document " + u + " (the working directory is " + sessDirs[sessDir] + ")")
		}
		switch base {
		case "d1.json", "d2.json", "d3.json":
			d := strings.TrimSuffix(base, ".json")
			return json.RawMessage(sessDoc(d, sessWorld[d])), nil
		case "root.json":
			return json.RawMessage(sessRoot("A")), nil
		}
		return nil, errors.New("world: no document " + u)
	}
}

func init() {
	families["sessions"] = &family{
		init: func() error {
			base, err := os.MkdirTemp("", "verif-cwd-")
			if err != nil {
				return err
			}
			base, _ = filepath.EvalSymlinks(base)
			for _, d := range []string{filepath.Join(base, "w", "r"), filepath.Join(base, "w", "other", "deep")} {
				if err := os.MkdirAll(d, 0o755); err != nil {
					return err
				}
				sessDirs = append(sessDirs, d)
			}
			cwdPrefix = base
			if err := os.Chdir(sessDirs[0]); err != nil {
				return err
			}
			// the pristine content of the built-in meta-schemas, before any expansion ran
			if !metaIntact() {
				return errors.New("built-in meta-schemas do not resolve at start-up")
			}
			return nil
		},
		run: func(line []byte, emit func(interface{})) error {
			var h struct {
				Steps []sessStep `json:"steps"`
			}
			if err := json.Unmarshal(line, &h); err != nil {
				return err
			}
			sessCounter++
			emit(runHistory(sessCounter, h.Steps))
			return nil
		},
	}
}

// readVector extracts, from a JSON result, which root and which document versions were used.
func readVector(b []byte) sessStep {
	var got sessStep
	s := string(b)
	for _, r := range []string{"A", "B"} {
		if strings.Contains(s, `"root:`+r+`"`) {
			got.Root += r
		}
	}
	for _, d := range []string{"d1", "d2", "d3"} {
		for v := 1; v <= 2; v++ {
			if strings.Contains(s, fmt.Sprintf(`"%s:v%d"`, d, v)) {
				switch d {
				case "d1":
					got.D1 = got.D1*10 + v
				case "d2":
					got.D2 = got.D2*10 + v
				case "d3":
					got.D3 = got.D3*10 + v
				}
			}
		}
	}
	return got
}

func runHistory(id int, steps []sessStep) *sessObs {
	o := &sessObs{ID: id, OK: true, Steps: []sessStepObs{}}
	// every history starts from the initial world
	sessWorld = map[string]int{"d1": 1, "d2": 1, "d3": 1}
	sessDir = 0
	_ = os.Chdir(sessDirs[0])
	for _, st := range steps {
		so := sessStepObs{Want: st, OK: true, Opts: true, Loads: []string{}}
		if st.K == "world" && st.X == "cwd" {
			sessDir = 1 - sessDir
			_ = os.Chdir(sessDirs[sessDir])
			so.Got = st
			o.Steps = append(o.Steps, so)
			continue
		}
		if st.K == "world" {
			sessWorld[st.X] = 3 - sessWorld[st.X]
			so.Got = st
			o.Steps = append(o.Steps, so)
			continue
		}
		so = sessCall(st)
		if !so.OK {
			o.OK = false
		}
		o.Steps = append(o.Steps, so)
	}
	return o
}

func sessCall(st sessStep) (so sessStepObs) {
	so = sessStepObs{Want: st, OK: true, Opts: true, Loads: []string{}}
	defer func() {
		if r := recover(); r != nil {
			so.OK, so.Why, so.Err = false, "panic", ascii(fmt.Sprint(r))
		}
	}()
	var loads []string
	live := true
	defer func() { live = false }()
	loader := worldLoader(&loads, &live)
	old := spec.PathLoader
	spec.PathLoader = loader
	defer func() { spec.PathLoader = old }()
	// the caller keeps ONE options value for all its calls; only the loader closure is refreshed
	if sessOpts == nil {
		sessOpts = &spec.ExpandOptions{RelativeBase: sessBase}
		sessOptsNoBase = &spec.ExpandOptions{}
	}
	opts := sessOpts
	opts.PathLoader = loader
	sessOptsNoBase.PathLoader = loader
	var out []byte
	var err error
	switch st.X {
	case "specA", "specB":
		var sw spec.Swagger
		_ = json.Unmarshal([]byte(sessRoot(st.Root)), &sw)
		err = spec.ExpandSpec(&sw, opts)
		out, _ = json.Marshal(sw.Definitions["X"])
		so.Opts = opts.RelativeBase == sessBase && !opts.SkipSchemas && !opts.ContinueOnError && !opts.AbsoluteCircularRef && opts.PathLoader != nil
	case "schemaA":
		var s spec.Schema
		_ = json.Unmarshal([]byte(`{"$ref":"d1.json#/definitions/T"}`), &s)
		err = spec.ExpandSchemaWithBasePath(&s, nil, opts)
		out, _ = json.Marshal(s)
		so.Opts = opts.RelativeBase == sessBase && opts.PathLoader != nil
	case "resolveA":
		ref := spec.MustCreateRef("d2.json#/definitions/T")
		var s *spec.Schema
		s, err = spec.ResolveRefWithBase(nil, &ref, opts)
		out, _ = json.Marshal(s)
		so.Opts = opts.RelativeBase == sessBase && opts.PathLoader != nil
	case "withRootA", "withRootB":
		var sw spec.Swagger
		_ = json.Unmarshal([]byte(sessRoot(st.Root)), &sw)
		var s spec.Schema
		_ = json.Unmarshal([]byte(`{"$ref":"#/definitions/X"}`), &s)
		err = spec.ExpandSchema(&s, &sw, nil)
		out, _ = json.Marshal(s)
	case "nobaseA":
		// options without a RelativeBase: documents are found relative to the working directory
		var s spec.Schema
		_ = json.Unmarshal([]byte(`{"$ref":"d1.json#/definitions/T"}`), &s)
		err = spec.ExpandSchemaWithBasePath(&s, nil, sessOptsNoBase)
		out, _ = json.Marshal(s)
		so.Opts = sessOptsNoBase.RelativeBase == "" && !sessOptsNoBase.SkipSchemas && !sessOptsNoBase.ContinueOnError && sessOptsNoBase.PathLoader != nil
	case "metahost":
		var s spec.Schema
		_ = json.Unmarshal([]byte(`{"type":"object","properties":{"a":{"$ref":"http://json-schema.org/draft-07/schema#/definitions/T"},"b":{"$ref":"http://swagger.io/v3/schema.json#/definitions/T"}}}`), &s)
		err = spec.ExpandSchemaWithBasePath(&s, nil, opts)
		out, _ = json.Marshal(s)
		so.Opts = opts.RelativeBase == sessBase && opts.PathLoader != nil
	case "metaref":
		// a schema that refers to a whole built-in meta-schema document
		var s spec.Schema
		_ = json.Unmarshal([]byte(`{"type":"object","properties":{"m":{"$ref":"http://json-schema.org/draft-04/schema#"},"s":{"$ref":"http://swagger.io/v2/schema.json#/definitions/info"}}}`), &s)
		err = spec.ExpandSchemaWithBasePath(&s, nil, opts)
		out = []byte(`{}`)
		so.Opts = opts.RelativeBase == sessBase && opts.PathLoader != nil
	case "meta":
		sch := spec.MustLoadJSONSchemaDraft04()
		err = spec.ExpandSchema(sch, sch, nil)
		if err == nil && sessCounter%16 == 0 {
			// the (much larger) Swagger 2.0 meta-schema: every 16th history
			sw := spec.MustLoadSwagger20Schema()
			err = spec.ExpandSchema(sw, sw, nil)
		}
		out = []byte(`{}`)
	}
	so.Loads = loads
	if so.Loads == nil {
		so.Loads = []string{}
	}
	if err != nil {
		so.OK, so.Why, so.Err = false, "call failed", ascii(err.Error())
		return so
	}
	so.Got = readVector(out)
	so.Got.K, so.Got.X = st.K, st.X
	want := st
	if want.Root == "none" || want.Root == "meta" {
		want.Root = ""
	}
	if so.Got.Root != want.Root || so.Got.D1 != want.D1 || so.Got.D2 != want.D2 || so.Got.D3 != want.D3 {
		so.OK, so.Why = false, "the result does not reflect the current world / the call's own root"
	}
	if !so.Opts {
		so.OK, so.Why = false, "the caller's options were modified"
	}
	// package state after the call
	so.PkgKey = spec.VerifPkgCacheKeys()
	sort.Strings(so.PkgKey)
	so.Pkg = len(so.PkgKey) == 2 && so.PkgKey[0] == "http://json-schema.org/draft-04/schema" && so.PkgKey[1] == "http://swagger.io/v2/schema.json"
	if !so.Pkg {
		so.OK, so.Why = false, "the package-level cache changed"
	}
	so.Meta = metaIntact()
	if !so.Meta {
		so.OK, so.Why = false, "a built-in meta-schema is no longer resolvable / was modified"
	}
	return so
}

// metaIntact resolves one definition of each built-in meta-schema without any loader and
// compares it with what the very first resolution returned.
func metaIntact() bool {
	noLoader := func(u string) (json.RawMessage, error) { return nil, errors.New("built-ins must not be fetched: " + u) }
	for _, r := range []string{"http://json-schema.org/draft-04/schema#/definitions/positiveInteger", "http://json-schema.org/draft-04/schema#",
		"http://json-schema.org/draft-04/schema#/properties/maxLength", "http://json-schema.org/draft-04/schema#/definitions/positiveIntegerDefault0",
		"http://swagger.io/v2/schema.json#/definitions/info", "http://swagger.io/v2/schema.json#/definitions/schema"} {
		ref := spec.MustCreateRef(r)
		s, err := spec.ResolveRefWithBase(nil, &ref, &spec.ExpandOptions{RelativeBase: sessBase, PathLoader: noLoader})
		if err != nil || s == nil {
			return false
		}
		b, _ := json.Marshal(s)
		var g interface{}
		_ = json.Unmarshal(b, &g)
		d := digest(g)
		if old, ok := metaDigest[r]; ok && old != d {
			return false
		}
		metaDigest[r] = d
	}
	return true
}
