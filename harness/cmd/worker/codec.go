package main

// Family "codec" (C01, C06, C07, C14, C15): abstract documents enumerated by
// spec/CodecCases.tla are rendered as JSON, decoded into the model type of their outermost
// kind, encoded again, sent through gob, and probed with JSON pointers.

import (
	"bytes"
	"encoding/gob"
	"encoding/json"
	"flag"
	"fmt"
	"math/big"
	"reflect"
	"sort"
	"strconv"
	"strings"

	"github.com/go-openapi/jsonpointer"
	"github.com/go-openapi/spec"
)

type cMember struct {
	Name string `json:"name"`
	VT   string `json:"vt"`
	Cls  string `json:"cls"`
}

type cEdge struct {
	Kind string `json:"kind"`
	Fl   string `json:"fl"`
	Kw   string `json:"kw"`
	How  string `json:"how"`
}

type codecCase struct {
	Fam     string    `json:"fam"`
	Chain   []cEdge   `json:"chain"`
	Kind    string    `json:"kind"`
	Fl      string    `json:"fl"`
	Members []cMember `json:"members"`
}

type badLookup struct {
	Ptr   string     `json:"ptr"`
	Trail [][]string `json:"trail"` // per token: [kind of the holder, token, value type of the member]
	Typed string     `json:"typed"`
	JSON  string     `json:"json"`
	Err   string     `json:"err"`
}

type codecObs struct {
	ID       int         `json:"id"`
	Case     codecCase   `json:"case"`
	Top      string      `json:"top"` // kind of the outermost object = decode target
	Src      string      `json:"src"`
	Outcome  string      `json:"outcome"` // ok | decode-error | encode-error | panic
	Err      string      `json:"err"`
	Eq       bool        `json:"eq"`   // encoding equals the source as a JSON value
	Diff     string      `json:"diff"` // first difference
	N1       string      `json:"n1"`
	Idem     bool        `json:"idem"` // decode+encode of n1 reproduces n1 byte for byte
	N2       string      `json:"n2"`
	Dups     []string    `json:"dups"`     // member names occurring twice in one object of n1
	Faith    bool        `json:"faithful"` // n1 parses to the value the model holds (member names)
	Det      bool        `json:"det"`      // repeated encodings and re-decodings give identical bytes
	Gob      string      `json:"gob"`      // na | eq | diff | error
	GobDiff  string      `json:"gobdiff"`
	NPtr     int         `json:"nptr"`
	BadPtr   []badLookup `json:"badptr"`
	Names    string      `json:"names"`
	ValidIn  string      `json:"validin"` // C19: verdicts of the schema validator, filled by the driver ("n" = not run)
	ValidRT  string      `json:"validrt"`
	ValidExp string      `json:"validexp"`
	Expanded string      `json:"expanded"` // -expand: JSON of the document after a full ExpandSpec
	ExpErr   string      `json:"experr"`
	SrcRaw   string      `json:"srcraw"`
	N1Raw    string      `json:"n1raw"`
	NMut     int         `json:"nmut"`   // byte-level mutants decoded (totality only)
	MutBad   []string    `json:"mutbad"` // mutants on which decoding / encoding panicked
}

var codecFlags struct {
	names  string
	vocab  string
	mutate int
	expand bool
}
var codecCounter int
var vocab struct {
	VT map[string]map[string]string `json:"vt"`
}

func init() {
	families["codec"] = &family{
		flags: func(fs *flag.FlagSet) {
			fs.StringVar(&codecFlags.names, "names", "plain", "member-name class for map keys: plain | special")
			fs.StringVar(&codecFlags.vocab, "vocab", "", "Vocabulary.json written by tools/gen_vocabulary.py")
			fs.IntVar(&codecFlags.mutate, "mutate", 0, "byte-level mutants per document (truncations and flips)")
			fs.BoolVar(&codecFlags.expand, "expand", false, "also expand whole documents (C19)")
		},
		init: func() error {
			b, err := osReadFile(codecFlags.vocab)
			if err != nil {
				return err
			}
			return json.Unmarshal(b, &vocab)
		},
		run: func(line []byte, emit func(interface{})) error {
			var c codecCase
			if err := json.Unmarshal(line, &c); err != nil {
				return err
			}
			codecCounter++
			emit(runCodec(codecCounter, c))
			return nil
		},
		crashed: func(line []byte, outcome, detail string) interface{} {
			var c codecCase
			_ = json.Unmarshal(line, &c)
			return &codecObs{Case: c, Outcome: outcome, Err: ascii(detail), Dups: []string{}, BadPtr: []badLookup{}, MutBad: []string{},
				ValidIn: "n", ValidRT: "n", ValidExp: "n", Gob: "na"}
		},
	}
}

func newOf(kind string) interface{} {
	switch kind {
	case "swagger":
		return &spec.Swagger{}
	case "info":
		return &spec.Info{}
	case "contact":
		return &spec.ContactInfo{}
	case "license":
		return &spec.License{}
	case "externalDocs":
		return &spec.ExternalDocumentation{}
	case "tag":
		return &spec.Tag{}
	case "xml":
		return &spec.XMLObject{}
	case "operation":
		return &spec.Operation{}
	case "pathItem":
		return &spec.PathItem{}
	case "paths":
		return &spec.Paths{}
	case "response":
		return &spec.Response{}
	case "responses":
		return &spec.Responses{}
	case "header":
		return &spec.Header{}
	case "items":
		return &spec.Items{}
	case "schema":
		return &spec.Schema{}
	case "parameter":
		return &spec.Parameter{}
	case "securityScheme":
		return &spec.SecurityScheme{}
	}
	return nil
}

type obj = map[string]interface{}

func strSchema() obj { return obj{"type": "string"} }

// minimalDoc: the members the kind (flavour) requires, nothing else.
func minimalDoc(kind, fl string) obj {
	switch kind {
	case "swagger":
		return obj{"swagger": "2.0", "info": minimalDoc("info", ""), "paths": obj{}}
	case "info":
		return obj{"title": "t", "version": "1"}
	case "contact":
		return obj{"name": "n"}
	case "license":
		return obj{"name": "n"}
	case "externalDocs":
		return obj{"url": "http://e.example"}
	case "tag":
		return obj{"name": "n"}
	case "xml":
		return obj{"name": "n"}
	case "operation":
		return obj{"responses": minimalDoc("responses", "")}
	case "pathItem":
		return obj{"get": minimalDoc("operation", "")}
	case "paths":
		return obj{"/p": minimalDoc("pathItem", "")}
	case "response":
		if fl == "ref" {
			return obj{"$ref": "#/responses/X"}
		}
		return obj{"description": "d"}
	case "responses":
		return obj{"200": minimalDoc("response", "")}
	case "header", "items":
		return obj{"type": "string"}
	case "schema":
		return obj{}
	case "parameter":
		switch fl {
		case "ref":
			return obj{"$ref": "#/parameters/X"}
		case "", "body":
			return obj{"name": "n", "in": "body", "schema": strSchema()}
		case "path":
			return obj{"name": "n", "in": "path", "type": "string", "required": true}
		}
		return obj{"name": "n", "in": fl, "type": "string"}
	case "securityScheme":
		switch fl {
		case "", "basic":
			return obj{"type": "basic"}
		case "apiKey":
			return obj{"type": "apiKey", "name": "k", "in": "header"}
		case "implicit":
			return obj{"type": "oauth2", "flow": "implicit", "authorizationUrl": "http://a.example", "scopes": obj{"s": "d"}}
		case "password", "application":
			return obj{"type": "oauth2", "flow": fl, "tokenUrl": "http://t.example", "scopes": obj{"s": "d"}}
		case "accessCode":
			return obj{"type": "oauth2", "flow": "accessCode", "authorizationUrl": "http://a.example", "tokenUrl": "http://t.example", "scopes": obj{"s": "d"}}
		}
	}
	return obj{}
}

var specialKeys = []string{"a~1b", "c~0d", "quo\"te", "back\\slash", "new\nline", "tab\there", "unié中", "sl/ash", "til~de", "per%cent", "sp ace", "dollar$", "{brace}", "ctl\u0001"}

func mapKey(i int, kind string) string {
	if kind == "pathItem" {
		if codecFlags.names == "special" {
			return "/" + specialKeys[(i+codecCounter)%len(specialKeys)] + strconv.Itoa(i)
		}
		return "/p" + strconv.Itoa(i)
	}
	if codecFlags.names == "special" {
		return specialKeys[(i+codecCounter)%len(specialKeys)] + strconv.Itoa(i)
	}
	return "k" + strconv.Itoa(i)
}

// allSpecialKeys: with the special name pool every map of the vocabulary holds, next to its entry of interest, one
// (minimal) entry under each of the special names: which names a case meets does not depend on the order of the cases
func allSpecialKeys(m obj, kk string) {
	if codecFlags.names != "special" || kk == "pathItem" || kk == "schemaOrStringsV" {
		return
	}
	for _, k := range specialKeys {
		if _, ok := m[k+"0"]; !ok {
			m[k+"0"] = fill(minimalDoc(kk, ""), kk)
		}
	}
}

// pathKey: the key of a path item; with the special name pool it carries characters that need
// escaping in a JSON pointer (and literal "~1" / "~0" sequences)
func pathKey(kw string) string {
	if codecFlags.names == "special" && strings.HasPrefix(kw, "/") {
		return mapKey(1, "pathItem")
	}
	return kw
}

// respKey: the key of a response; with the special name pool a numeric status code becomes one of the
// less usual three-digit codes the meta-schema admits as well
func respKey(kw string) string {
	if codecFlags.names == "special" && kw == "200" {
		return []string{"999", "600", "100", "599", "000"}[codecCounter%5]
	}
	return kw
}

// gobPrefill: the destination of a gob transport need not be fresh.  For the kinds whose decoder is the
// package's own (Swagger, Operation: they promise to rebuild the value), another value of the kind is
// decoded into the destination first; what arrives afterwards must replace it entirely.
func gobPrefill(top string, dst interface{}) error {
	var prev interface{}
	switch top {
	case "swagger":
		var sw spec.Swagger
		_ = json.Unmarshal([]byte(`{"swagger":"2.0","info":{"title":"previous","version":"0","x-prev-info":1},"paths":{"/prev":{"get":{"responses":{"200":{"description":"p"}}}}},`+
			`"host":"prev.example","x-previous":{"a":[1]},"security":[{"prev":["s"]}],"definitions":{"Prev":{"title":"prev"}}}`), &sw)
		prev = &sw
	case "operation":
		var op spec.Operation
		_ = json.Unmarshal([]byte(`{"operationId":"previous","summary":"prev","x-previous":{"a":[1]},"security":[{"prev":["s"]}],`+
			`"responses":{"200":{"description":"p"},"x-prev-resp":1},"tags":["prev"]}`), &op)
		prev = &op
	default:
		return nil
	}
	var buf bytes.Buffer
	if err := gob.NewEncoder(&buf).Encode(prev); err != nil {
		return err
	}
	return gob.NewDecoder(&buf).Decode(dst)
}

func strFor(name string) interface{} {
	switch name {
	case "type":
		return "string"
	case "collectionFormat":
		return "csv"
	case "format":
		return "date"
	case "in":
		return "query"
	case "flow":
		return "implicit"
	case "swagger":
		return "2.0"
	case "url", "termsOfService", "authorizationUrl", "tokenUrl", "namespace", "id", "$schema":
		return "http://u.example/x"
	case "email":
		return "a@b.example"
	case "host":
		return "h.example"
	case "basePath":
		return "/b"
	case "pattern":
		return "^a\\d+$"
	}
	return "v-" + name
}

func strsFor(name string) interface{} {
	switch name {
	case "schemes":
		return []interface{}{"http", "https"}
	case "consumes", "produces":
		return []interface{}{"application/json", "text/plain"}
	}
	return []interface{}{"a", "b"}
}

func payload(cls string) interface{} {
	switch cls {
	case "str":
		return "p"
	case "num":
		return 2.5
	case "zero":
		return 0
	case "true":
		return true
	case "false":
		return false
	case "strArr":
		return []interface{}{"a", "b"}
	case "objArr":
		return []interface{}{obj{"k": 1}}
	case "obj":
		return obj{"k": "v", "n": 1}
	case "nested":
		return obj{"a": []interface{}{1, obj{"b": []interface{}{true, "x"}}}, "c": obj{"d": obj{"e": 1.25}}}
	case "withNull":
		return obj{"a": nil, "b": []interface{}{nil, 1}}
	case "withEmpty":
		return obj{"a": []interface{}{}, "b": obj{}}
	case "mix":
		return []interface{}{obj{"a": []interface{}{}, "n": nil, "o": obj{}}, []interface{}{[]interface{}{}}, 0, "", false}
	case "nullOnly":
		return nil
	}
	return wildValue(cls)
}

func wildValue(cls string) interface{} {
	switch cls {
	case "null":
		return nil
	case "true":
		return true
	case "false":
		return false
	case "zero":
		return 0
	case "num", "frac":
		return 1.5
	case "int":
		return 7
	case "neg":
		return -3
	case "emptyStr":
		return ""
	case "str":
		return "s"
	case "emptyArr":
		return []interface{}{}
	case "strArr":
		return []interface{}{"a"}
	case "objArr":
		return []interface{}{obj{"k": 1}}
	case "mixedArr":
		return []interface{}{"a", 1, true, obj{"k": "v"}}
	case "emptyObj":
		return obj{}
	case "obj":
		return obj{"k": "v"}
	}
	return cls
}

func kidKind(vt string) (how, kind string) {
	switch {
	case strings.HasPrefix(vt, "kind:"):
		return "single", vt[5:]
	case strings.HasPrefix(vt, "map:"):
		return "map", vt[4:]
	case strings.HasPrefix(vt, "list:"):
		return "list", vt[5:]
	}
	return "", ""
}

// valueFor renders a member value of the given type and class.  wild: classes are taken
// literally (C07), whatever the type.
func valueFor(name, vt, cls string, wild bool) interface{} {
	if wild {
		return wildValue(cls)
	}
	if vt == "oddstr" {
		switch cls {
		case "hash":
			return "#"
		case "hashslash":
			return "#/"
		case "dblhash":
			return "##"
		case "badpct":
			return "%zz"
		case "badhost":
			return "http://[::1"
		case "noscheme":
			return ":no-scheme"
		case "space":
			return "a b/c d.json#/x y"
		case "ctl":
			return "a\u0001b"
		case "tilde2":
			return "#/a~2b/~"
		case "onlyquery":
			return "?q=1"
		case "urnbackslash":
			return "urn:example:dir\\table"
		case "queryquote":
			return "x.json?v=a\"b\\u0041"
		case "urnplain":
			return "urn:example:thing"
		case "longfrag":
			return "x.json#/definitions/" + strings.Repeat("a/", 300)
		}
		return cls
	}
	switch cls {
	case "emptyObj":
		return obj{}
	case "emptyArr":
		return []interface{}{}
	case "xdashStr":
		return "x-y"
	case "refObj":
		return obj{"$ref": "#/definitions/X"}
	}
	switch vt {
	case "str":
		if cls == "emptyStr" {
			return ""
		}
		return strFor(name)
	case "bool":
		return cls == "true"
	case "num", "int":
		return wildValue(cls)
	case "any":
		return payload(cls)
	case "anys":
		if cls == "mixedArr" {
			return wildValue("mixedArr")
		}
		return []interface{}{"a", "b"}
	case "strs":
		return strsFor(name)
	case "typeUnion":
		if cls == "strArr2" {
			return []interface{}{"string", "null"}
		}
		return "string"
	case "schemaOrArray":
		switch cls {
		case "schemaList1":
			return []interface{}{strSchema()}
		case "schemaList2":
			return []interface{}{strSchema(), obj{"type": "integer"}}
		}
		return strSchema()
	case "schemaOrBool":
		switch cls {
		case "true":
			return true
		case "false":
			return false
		}
		return strSchema()
	case "map:schemaOrStrings":
		switch cls {
		case "depEmptyList":
			return obj{"a": []interface{}{}, "b": []interface{}{"c"}}
		case "depNull":
			return obj{"a": nil}
		case "depNumber":
			return obj{"a": 1}
		case "depString":
			return obj{"a": "s"}
		case "depEmptyObj":
			return obj{"a": obj{}}
		case "depStrs":
			return obj{mapKey(1, "dep"): []interface{}{"b", "c"}}
		case "depBoth":
			return obj{mapKey(1, "dep"): strSchema(), mapKey(2, "dep"): []interface{}{"b"}}
		}
		return obj{mapKey(1, "dep"): strSchema()}
	case "security":
		switch cls {
		case "secNone":
			return []interface{}{}
		case "secAnon":
			return []interface{}{obj{}}
		case "secAnonMixed":
			return []interface{}{obj{}, obj{"k": []interface{}{}}, obj{"j": []interface{}{"s1"}}}
		case "secEmptyScopes":
			return []interface{}{obj{"k": []interface{}{}}}
		case "secTwo":
			return []interface{}{obj{"k": []interface{}{"s1", "s2"}}, obj{"j": []interface{}{}}}
		}
		return []interface{}{obj{"k": []interface{}{"s1"}}}
	case "scopes":
		if cls == "scopesEmpty" {
			return obj{}
		}
		return obj{"s": "d"}
	case "anymap":
		if cls == "ex2" {
			return obj{"application/json": obj{"a": 1}, "text/plain": "x"}
		}
		return obj{"application/json": obj{"a": 1}}
	case "ref":
		sec := "definitions/X"
		switch refKind {
		case "parameter":
			sec = "parameters/X"
		case "response":
			sec = "responses/X"
		case "pathItem":
			sec = "paths/~1x"
		}
		if cls == "refRemote" {
			return "other.json#/" + sec
		}
		return "#/" + sec
	}
	how, kk := kidKind(vt)
	switch how {
	case "single":
		if cls == "emptyObj" {
			return obj{}
		}
		return fill(minimalDoc(kk, ""), kk)
	case "map":
		if cls == "mapEmptyKey" {
			return obj{"": fill(minimalDoc(kk, ""), kk)}
		}
		m := obj{mapKey(1, kk): fill(minimalDoc(kk, ""), kk)}
		if cls == "map2" {
			m[mapKey(2, kk)] = fill(minimalDoc(kk, ""), kk)
		}
		allSpecialKeys(m, kk)
		return m
	case "list":
		l := []interface{}{fill(minimalDoc(kk, ""), kk)}
		if cls == "list2" {
			d := fill(minimalDoc(kk, ""), kk)
			if kk == "parameter" {
				d["name"] = "n2"
			}
			if kk == "tag" {
				d["name"] = "n2"
			}
			l = append(l, d)
		}
		return l
	}
	return strFor(name)
}

// fill makes sure an embedded object is not empty (an empty optional object is not in normal form).
func fill(d obj, kind string) obj {
	if len(d) == 0 {
		switch kind {
		case "schema":
			d["title"] = "t"
		default:
			d["description"] = "d"
		}
	}
	return d
}

// build renders the case: the outermost value and the kind it is decoded as.
var refKind string // kind of the object whose $ref is being rendered

// refTargets: what the $refs of the valid family point at
func refTargets() obj {
	return obj{
		"definitions": obj{"X": obj{"type": "string"}},
		"parameters":  obj{"X": obj{"name": "x", "in": "query", "type": "string"}},
		"responses":   obj{"X": obj{"description": "x"}},
		"paths":       obj{"/x": obj{"get": obj{"responses": obj{"200": obj{"description": "ok"}}}}},
	}
}

// remoteTargets: the other document of the expansion runs; its parameter and response hold a schema that is
// a $ref to a recursive definition of that document
func remoteTargets() obj {
	t := refTargets()
	t["definitions"].(obj)["Rec"] = obj{"type": "object", "properties": obj{"next": obj{"$ref": "#/definitions/Rec"}}}
	t["parameters"] = obj{"X": obj{"name": "x", "in": "body", "schema": obj{"$ref": "#/definitions/Rec"}}}
	t["responses"] = obj{"X": obj{"description": "x", "schema": obj{"$ref": "#/definitions/Rec"}}}
	return t
}

func build(c codecCase) (interface{}, string) {
	wild := c.Fam == "wild"
	refKind = c.Kind
	focus := minimalDoc(c.Kind, c.Fl)
	onlyRef := false
	for _, m := range c.Members {
		if m.VT == "ref" && !wild {
			onlyRef = true
		}
	}
	if onlyRef {
		focus = obj{}
	}
	for _, m := range c.Members {
		v := valueFor(m.Name, m.VT, m.Cls, wild)
		if c.Fam == "payload" {
			switch m.Name {
			case "enum":
				v = []interface{}{v, "e"}
			case "examples":
				v = obj{"application/json": v}
			}
		}
		name := m.Name
		if c.Fam == "casefold" {
			name = flipCase(name)
		}
		focus[name] = v
	}
	if !wild && !onlyRef {
		focus = fill(focus, c.Kind)
	}
	var cur interface{} = focus
	top := c.Kind
	for i := len(c.Chain) - 1; i >= 0; i-- {
		e := c.Chain[i]
		outer := minimalDoc(e.Kind, e.Fl)
		switch e.How {
		case "single":
			outer[e.Kw] = cur
		case "mapval":
			if e.Kind == "paths" {
				outer = obj{pathKey(e.Kw): cur}
				if codecFlags.names == "special" {
					// neighbours whose keys are one another's escaped / unescaped spellings
					for _, k := range []string{"/a~1b", "/a/b", "/c~0d", "/c~d", "/e~01f"} {
						outer[k] = obj{"x-which": k}
					}
				}
			} else if e.Kind == "responses" {
				outer = obj{respKey(e.Kw): cur}
			} else {
				_, kk := kidKind(vocab.VT[e.Kind][e.Kw])
				mm := obj{mapKey(1, kk): cur}
				allSpecialKeys(mm, kk)
				outer[e.Kw] = mm
			}
		case "listelem":
			outer[e.Kw] = []interface{}{cur}
		}
		if e.Kind == "responses" && e.How == "single" {
			outer = obj{respKey(e.Kw): cur}
		}
		if e.Kind == "paths" && e.How == "single" {
			outer = obj{pathKey(e.Kw): cur}
		}
		cur = outer
		top = e.Kind
	}
	if c.Fam == "valid" {
		// make every $ref resolvable inside the document
		if root, ok := cur.(obj); ok && top == "swagger" {
			for sec, m := range refTargets() {
				cur0, _ := root[sec].(obj)
				if cur0 == nil {
					cur0 = obj{}
				}
				for k, v := range m.(obj) {
					if _, has := cur0[k]; !has {
						cur0[k] = v
					}
				}
				root[sec] = cur0
			}
		}
	}
	return cur, top
}

// ---- JSON values compared exactly (numbers as rationals)
func decodeExact(b []byte) (interface{}, error) {
	d := json.NewDecoder(bytes.NewReader(b))
	d.UseNumber()
	var v interface{}
	if err := d.Decode(&v); err != nil {
		return nil, err
	}
	return v, nil
}

func jsonDiff(a, b interface{}, path string) string {
	switch x := a.(type) {
	case map[string]interface{}:
		y, ok := b.(map[string]interface{})
		if !ok {
			return path + ": object became " + kindOf(b)
		}
		keys := map[string]bool{}
		for k := range x {
			keys[k] = true
		}
		for k := range y {
			keys[k] = true
		}
		ks := make([]string, 0, len(keys))
		for k := range keys {
			ks = append(ks, k)
		}
		sort.Strings(ks)
		for _, k := range ks {
			xv, okx := x[k]
			yv, oky := y[k]
			if !oky {
				return path + "/" + k + ": member lost"
			}
			if !okx {
				return path + "/" + k + ": member appeared"
			}
			if d := jsonDiff(xv, yv, path+"/"+k); d != "" {
				return d
			}
		}
		return ""
	case []interface{}:
		y, ok := b.([]interface{})
		if !ok {
			return path + ": array became " + kindOf(b)
		}
		if len(x) != len(y) {
			return fmt.Sprintf("%s: array length %d became %d", path, len(x), len(y))
		}
		for i := range x {
			if d := jsonDiff(x[i], y[i], path+"/"+strconv.Itoa(i)); d != "" {
				return d
			}
		}
		return ""
	case json.Number:
		y, ok := b.(json.Number)
		if !ok {
			return path + ": number became " + kindOf(b)
		}
		rx, ok1 := new(big.Rat).SetString(string(x))
		ry, ok2 := new(big.Rat).SetString(string(y))
		if !ok1 || !ok2 || rx.Cmp(ry) != 0 {
			return path + ": number " + string(x) + " became " + string(y)
		}
		return ""
	default:
		if !reflect.DeepEqual(a, b) {
			return fmt.Sprintf("%s: %v (%s) became %v (%s)", path, a, kindOf(a), b, kindOf(b))
		}
		return ""
	}
}

func kindOf(v interface{}) string {
	switch v.(type) {
	case nil:
		return "null"
	case map[string]interface{}:
		return "object"
	case []interface{}:
		return "array"
	case string:
		return "string"
	case json.Number, float64:
		return "number"
	case bool:
		return "boolean"
	}
	return fmt.Sprintf("%T", v)
}

// dupNames scans the token stream for objects that carry a member name twice.
func dupNames(b []byte) ([]string, error) {
	d := json.NewDecoder(bytes.NewReader(b))
	var dups []string
	var walk func() error
	walk = func() error {
		t, err := d.Token()
		if err != nil {
			return err
		}
		if delim, ok := t.(json.Delim); ok {
			switch delim {
			case '{':
				seen := map[string]bool{}
				for d.More() {
					kt, err := d.Token()
					if err != nil {
						return err
					}
					k, _ := kt.(string)
					if seen[k] {
						dups = append(dups, ascii(k))
					}
					seen[k] = true
					if err := walk(); err != nil {
						return err
					}
				}
				_, err = d.Token()
				return err
			case '[':
				for d.More() {
					if err := walk(); err != nil {
						return err
					}
				}
				_, err = d.Token()
				return err
			}
		}
		return nil
	}
	if err := walk(); err != nil {
		return dups, err
	}
	if d.More() {
		return dups, fmt.Errorf("trailing data")
	}
	return dups, nil
}

func trim(s string, n int) string {
	if len(s) > n {
		return s[:n] + "..."
	}
	return s
}

func runCodec(id int, c codecCase) (o *codecObs) {
	o = &codecObs{ID: id, Case: c, Dups: []string{}, BadPtr: []badLookup{}, Gob: "na", Det: true, Faith: true, Names: codecFlags.names,
		MutBad: []string{}, ValidIn: "n", ValidRT: "n", ValidExp: "n"}
	defer func() {
		if r := recover(); r != nil {
			o.Outcome, o.Err = "panic", ascii(fmt.Sprint(r))
		}
	}()
	v, top := build(c)
	o.Top = top
	src := mustJSON(v)
	o.Src = ascii(string(src))
	if codecFlags.expand {
		// the validity of the input is judged whatever happens to it afterwards
		o.SrcRaw = string(src)
	}
	byteMutants(o, src, top)
	target := newOf(top)
	if err := json.Unmarshal(src, target); err != nil {
		o.Outcome, o.Err = "decode-error", ascii(err.Error())
		return o
	}
	n1, err := json.Marshal(target)
	if err != nil {
		o.Outcome, o.Err = "encode-error", ascii(err.Error())
		return o
	}
	o.Outcome = "ok"
	o.N1 = ascii(trim(string(n1), 1500))
	// C01: equal as JSON values
	a, e1 := decodeExact(src)
	b, e2 := decodeExact(n1)
	if e1 != nil || e2 != nil {
		o.Eq, o.Diff = false, ascii(fmt.Sprintf("encoding does not parse: %v %v", e1, e2))
		o.Faith = e2 == nil
	} else {
		o.Diff = ascii(jsonDiff(a, b, ""))
		o.Eq = o.Diff == ""
	}
	// C06: no duplicate member names, deterministic bytes
	dups, derr := dupNames(n1)
	if derr != nil {
		o.Faith = false
	}
	if dups != nil {
		o.Dups = dups
	}
	for i := 0; i < 3; i++ {
		again, err := json.Marshal(target)
		if err != nil || !bytes.Equal(again, n1) {
			o.Det = false
		}
		t2 := newOf(top)
		if json.Unmarshal(permuteMembers(src, i+1), t2) == nil {
			if b2, err := json.Marshal(t2); err != nil || !bytes.Equal(b2, n1) {
				o.Det = false
			}
		}
	}
	// C07: n1 is a fixed point of normalisation
	t3 := newOf(top)
	if err := json.Unmarshal(n1, t3); err != nil {
		o.Idem, o.N2 = false, ascii("re-decode failed: "+err.Error())
	} else if n2, err := json.Marshal(t3); err != nil {
		o.Idem, o.N2 = false, ascii("re-encode failed: "+err.Error())
	} else {
		o.Idem = bytes.Equal(n1, n2)
		if !o.Idem {
			o.N2 = ascii(trim(string(n2), 1500))
		}
	}
	// C14: gob transport
	switch top {
	case "swagger", "operation", "parameter", "schema", "response":
		var buf bytes.Buffer
		t4 := newOf(top)
		if err := gob.NewEncoder(&buf).Encode(target); err != nil {
			o.Gob, o.GobDiff = "error", ascii("encode: "+err.Error())
		} else if after, _ := json.Marshal(target); !bytes.Equal(after, n1) {
			o.Gob, o.GobDiff = "diff", ascii("gob-encoding changed the value that was encoded: "+trim(string(after), 300))
		} else if err := gobPrefill(top, t4); err != nil {
			o.Gob, o.GobDiff = "error", ascii("prefill: "+err.Error())
		} else if err := gob.NewDecoder(&buf).Decode(t4); err != nil {
			o.Gob, o.GobDiff = "error", ascii("decode: "+err.Error())
		} else if g1, err := json.Marshal(t4); err != nil {
			o.Gob, o.GobDiff = "error", ascii("marshal: "+err.Error())
		} else {
			ga, _ := decodeExact(n1)
			gb, _ := decodeExact(g1)
			if d := jsonDiff(ga, gb, ""); d != "" {
				o.Gob, o.GobDiff = "diff", ascii(d)
			} else {
				o.Gob = "eq"
			}
		}
	}
	if codecFlags.expand && top == "swagger" {
		o.SrcRaw, o.N1Raw = string(src), string(n1)
		var sw spec.Swagger
		if err := json.Unmarshal(src, &sw); err == nil {
			targets := mustJSON(remoteTargets())
			if sw.Definitions == nil {
				sw.Definitions = spec.Definitions{}
			}
			// the recursive definition of the other document is met first through the definitions
			sw.Definitions["UsesRec"] = *spec.RefSchema("other.json#/definitions/Rec")
			err := spec.ExpandSpec(&sw, &spec.ExpandOptions{RelativeBase: "file:///w/r/root.json",
				PathLoader: func(u string) (json.RawMessage, error) { return json.RawMessage(targets), nil }})
			if err != nil {
				o.ExpErr = ascii(err.Error())
			} else if b, err := json.Marshal(&sw); err == nil {
				o.Expanded = string(b)
			}
		}
	}
	// C15: every pointer into the encoded form, typed versus generic evaluation
	var gen interface{}
	_ = json.Unmarshal(n1, &gen)
	lookups(o, target, gen, top)
	return o
}

const mutAlphabet = "{}[]\",:0n-e\\ x"

// byteMutants: truncations and single-byte changes of the rendered document, decoded into the
// same type; only totality is checked (a panic is recorded, an error is fine).
func byteMutants(o *codecObs, src []byte, top string) {
	n := codecFlags.mutate
	if n <= 0 || len(src) == 0 {
		return
	}
	try := func(b []byte, what string) {
		defer func() {
			if r := recover(); r != nil {
				if len(o.MutBad) < 5 {
					o.MutBad = append(o.MutBad, ascii(what+": "+fmt.Sprint(r)))
				}
			}
		}()
		o.NMut++
		t := newOf(top)
		if json.Unmarshal(b, t) == nil {
			_, _ = json.Marshal(t)
		}
	}
	step := len(src)/n + 1
	for i := (o.ID % step); i < len(src); i += step {
		try(src[:i], "truncated at "+strconv.Itoa(i))
		m := append([]byte(nil), src...)
		m[i] = mutAlphabet[(i+o.ID)%len(mutAlphabet)]
		try(m, "byte "+strconv.Itoa(i)+" replaced")
	}
}

func escPtr(t string) string {
	return strings.ReplaceAll(strings.ReplaceAll(t, "~", "~0"), "/", "~1")
}

// vtOf: value type of member tok of an object of the given kind ("" if unknown)
func vtOf(kind, tok string) string {
	if kind == "paths" && strings.HasPrefix(tok, "/") {
		return "kind:pathItem"
	}
	if kind == "responses" && !strings.HasPrefix(strings.ToLower(tok), "x-") {
		return "kind:response"
	}
	if strings.HasPrefix(strings.ToLower(tok), "x-") {
		return "ext"
	}
	if m, ok := vocab.VT[kind]; ok {
		if vt, ok := m[tok]; ok {
			return vt
		}
	}
	if kind == "schema" {
		return "unknown"
	}
	return ""
}

func lookups(o *codecObs, typed interface{}, gen interface{}, top string) {
	type frame struct {
		v     interface{}
		toks  []string
		trail [][]string
		kind  string // kind of the object at this node ("" = plain value), with pending container info
		cont  string // "" | "map:K" | "list:K" | union types: how the children are typed
	}
	var walk func(f frame)
	check := func(f frame) {
		if len(f.toks) == 0 {
			return
		}
		o.NPtr++
		var sb strings.Builder
		for _, t := range f.toks {
			sb.WriteString("/" + escPtr(t))
		}
		p, err := jsonpointer.New(sb.String())
		if err != nil {
			return
		}
		want := f.v
		got, _, gerr := p.Get(typed)
		var gotGen interface{}
		if gerr == nil {
			b, merr := json.Marshal(got)
			if merr != nil {
				gerr = merr
			} else {
				_ = json.Unmarshal(b, &gotGen)
			}
		}
		if gerr != nil || !reflect.DeepEqual(gotGen, want) {
			if len(o.BadPtr) < 40 {
				bl := badLookup{Ptr: ascii(sb.String()), Trail: f.trail, JSON: ascii(trim(string(mustJSON(want)), 200))}
				if gerr != nil {
					bl.Err = ascii(gerr.Error())
				} else {
					bl.Typed = ascii(trim(string(mustJSON(gotGen)), 200))
				}
				o.BadPtr = append(o.BadPtr, bl)
			}
		}
	}
	walk = func(f frame) {
		check(f)
		switch x := f.v.(type) {
		case map[string]interface{}:
			for _, k := range sortedKeys(x) {
				nf := frame{v: x[k], toks: append(append([]string{}, f.toks...), k)}
				switch {
				case f.kind != "":
					vt := vtOf(f.kind, k)
					nf.trail = append(append([][]string{}, f.trail...), []string{f.kind, ascii(k), vt})
					how, kk := kidKind(vt)
					switch {
					case how == "single":
						nf.kind = kk
					case how == "map" || how == "list":
						nf.cont = vt
					case vt == "schemaOrArray" || vt == "schemaOrBool":
						if _, isObj := x[k].(map[string]interface{}); isObj {
							nf.kind = "schema"
						} else {
							nf.cont = "list:schema"
						}
					case vt == "map:schemaOrStrings":
						nf.cont = "map:schemaOrStringsV"
					}
				case f.cont != "":
					nf.trail = append(append([][]string{}, f.trail...), []string{"", ascii(k), f.cont})
					_, kk := kidKind(f.cont)
					if kk == "schemaOrStringsV" {
						if _, isObj := x[k].(map[string]interface{}); isObj {
							nf.kind = "schema"
						}
					} else {
						nf.kind = kk
					}
				default:
					nf.trail = append(append([][]string{}, f.trail...), []string{"", ascii(k), "plain"})
				}
				walk(nf)
			}
		case []interface{}:
			for i, e := range x {
				nf := frame{v: e, toks: append(append([]string{}, f.toks...), strconv.Itoa(i))}
				if f.cont != "" {
					nf.trail = append(append([][]string{}, f.trail...), []string{"", strconv.Itoa(i), f.cont})
					_, kk := kidKind(f.cont)
					nf.kind = kk
				} else {
					nf.trail = append(append([][]string{}, f.trail...), []string{"", strconv.Itoa(i), "plain"})
				}
				walk(nf)
			}
		}
	}
	walk(frame{v: gen, kind: top})
}
