package main

// Family "randgraph": seeded random abstract reference graphs, larger than what TLC
// enumerates, in the same format as spec/ExpCases.tla (forest of owned nodes, $ref edges to
// kind-compatible nodes, every node reachable from the root document).  They are fed to the
// "expander" family and judged by the same TLA+ oracle.

import (
	"encoding/json"
	"flag"
	"math/rand"
)

var rgFlags struct {
	n, docs, count int
	seed           int64
	dangling       bool
	wf             bool
	chain          int
}

func init() {
	families["randgraph"] = &family{
		flags: func(fs *flag.FlagSet) {
			fs.IntVar(&rgFlags.n, "n", 10, "nodes per graph")
			fs.IntVar(&rgFlags.docs, "docs", 3, "documents")
			fs.IntVar(&rgFlags.count, "count", 10, "graphs per input line")
			fs.Int64Var(&rgFlags.seed, "seed", 1, "seed")
			fs.IntVar(&rgFlags.chain, "chain", 0, "emit acyclic reference chains of this many links instead of random graphs")
			fs.BoolVar(&rgFlags.dangling, "dangling", false, "allow refs to nothing")
			fs.BoolVar(&rgFlags.wf, "wf", true, "only well-founded parameter/response/path-item chains")
		},
		run: func(line []byte, emit func(interface{})) error {
			var c struct {
				Shard int `json:"shard"`
			}
			_ = json.Unmarshal(line, &c)
			if rgFlags.chain > 0 {
				// acyclic chains of rgFlags.chain links: pure references, and structures each holding the next reference
				if c.Shard == 0 {
					k := rgFlags.chain
					pure := make([]absNode, 0, k+1)
					for i := 1; i <= k; i++ {
						pure = append(pure, absNode{T: "ref", Kind: "s", To: i + 1})
					}
					pure = append(pure, absNode{T: "leaf", Kind: "s"})
					emit(pure)
					st := make([]absNode, 0, 2*k+1)
					for i := 0; i < k; i++ {
						st = append(st, absNode{T: "st", Kind: "s"}, absNode{T: "ref", Kind: "s", Owner: 2*i + 1, To: 2*i + 3})
					}
					st = append(st, absNode{T: "leaf", Kind: "s"})
					emit(st)
					mixed := append([]absNode{{T: "st", Kind: "p"}, {T: "ref", Kind: "s", Owner: 1, To: 3}}, shift(pure, 2)...)
					emit(mixed)
				}
				return nil
			}
			rng := rand.New(rand.NewSource(rgFlags.seed*1000003 + int64(c.Shard)))
			made := 0
			for tries := 0; made < rgFlags.count && tries < rgFlags.count*200; tries++ {
				g := randomGraph(rng, rgFlags.n, rgFlags.docs, rgFlags.dangling)
				if g == nil || (rgFlags.wf && !wellFounded(g)) {
					continue
				}
				made++
				emit(g)
			}
			return nil
		},
	}
}

func randomGraph(rng *rand.Rand, n, docs int, dangling bool) []absNode {
	g := make([]absNode, n)
	kids := make([]int, n)
	maxKids := func(k string) int {
		if k == "s" || k == "i" {
			return 2
		}
		return 1
	}
	for i := 0; i < n; i++ {
		// owned by an earlier structure with room, or top-level
		var open []int
		for m := 0; m < i; m++ {
			if g[m].T == "st" && kids[m] < maxKids(g[m].Kind) {
				open = append(open, m)
			}
		}
		t := []string{"leaf", "ref", "ref", "st", "st"}[rng.Intn(5)]
		if len(open) > 0 && rng.Intn(3) > 0 {
			m := open[rng.Intn(len(open))]
			kind := "s"
			if g[m].Kind == "i" {
				kind = []string{"p", "r"}[rng.Intn(2)]
			}
			g[i] = absNode{T: t, Kind: kind, Owner: m + 1, Doc: g[m].Doc}
			kids[m]++
		} else {
			kind := []string{"s", "s", "s", "p", "r", "i"}[rng.Intn(6)]
			doc := 0
			if i > 0 {
				doc = rng.Intn(docs)
			}
			g[i] = absNode{T: t, Kind: kind, Doc: doc}
		}
	}
	// every structure needs a child: demote childless ones to leaves
	for i := range g {
		if g[i].T == "st" && kids[i] == 0 {
			g[i].T = "leaf"
		}
	}
	// wire the refs to kind-compatible targets
	for i := range g {
		if g[i].T != "ref" {
			continue
		}
		var cand []int
		for k := range g {
			if g[k].Kind == g[i].Kind {
				cand = append(cand, k+1)
			}
		}
		if dangling && rng.Intn(8) == 0 {
			g[i].To = 0
			continue
		}
		g[i].To = cand[rng.Intn(len(cand))]
	}
	// every node is reachable from the top-level nodes of the root document: an unreachable element becomes the
	// target of a reachable reference of its kind, or moves (with what it owns) into the root document
	reach := func() []bool {
		seen := make([]bool, n)
		var stack []int
		for i := range g {
			if g[i].Owner == 0 && g[i].Doc == 0 {
				stack = append(stack, i)
			}
		}
		for len(stack) > 0 {
			m := stack[len(stack)-1]
			stack = stack[:len(stack)-1]
			if seen[m] {
				continue
			}
			seen[m] = true
			if g[m].T == "ref" {
				if g[m].To > 0 {
					stack = append(stack, g[m].To-1)
				}
				continue
			}
			for k := range g {
				if g[k].Owner == m+1 {
					stack = append(stack, k)
				}
			}
		}
		return seen
	}
	for round := 0; round < 4*n; round++ {
		seen := reach()
		u := -1
		for i := range g {
			if !seen[i] {
				u = i
				break
			}
		}
		if u < 0 {
			break
		}
		for g[u].Owner != 0 {
			u = g[u].Owner - 1
		}
		var refs []int
		for r := range g {
			if seen[r] && g[r].T == "ref" && g[r].Kind == g[u].Kind && r != u {
				refs = append(refs, r)
			}
		}
		if len(refs) > 0 && rng.Intn(3) > 0 {
			g[refs[rng.Intn(len(refs))]].To = u + 1
			continue
		}
		// move the element and everything it owns into the root document
		var move func(m int)
		move = func(m int) {
			g[m].Doc = 0
			for k := range g {
				if g[k].Owner == m+1 {
					move(k)
				}
			}
		}
		move(u)
	}
	for _, ok := range reach() {
		if !ok {
			return nil
		}
	}
	// documents without gaps: renumber
	used := map[int]int{0: 0}
	for i := range g {
		if _, ok := used[g[i].Doc]; !ok {
			used[g[i].Doc] = len(used)
		}
	}
	for i := range g {
		g[i].Doc = used[g[i].Doc]
	}
	return g
}

// shift renumbers the references of g for a graph that has off nodes before it.
func shift(g []absNode, off int) []absNode {
	out := make([]absNode, len(g))
	for i, a := range g {
		if a.To > 0 {
			a.To += off
		}
		if a.Owner > 0 {
			a.Owner += off
		}
		out[i] = a
	}
	return out
}

func wellFounded(g []absNode) bool {
	for i := range g {
		if g[i].Kind == "s" {
			continue
		}
		m, fuel := i, len(g)+1
		for g[m].T == "ref" && g[m].To > 0 && fuel > 0 {
			m = g[m].To - 1
			fuel--
		}
		if fuel == 0 {
			return false
		}
	}
	return true
}
