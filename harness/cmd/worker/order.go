package main

// Family "order" (C06): item sets exported by spec/Ordering.tla become the properties of a
// schema; the schema is decoded from every permutation of the source member order and encoded
// repeatedly: all encodings must be byte-identical and ordered as the specification says.

import (
	"bytes"
	"encoding/json"
	"fmt"
	"sort"

	"github.com/go-openapi/spec"
)

type ordItem struct {
	Name string `json:"name"`
	XO   string `json:"xo"`
}

type ordObs struct {
	ID      int       `json:"id"`
	Items   []ordItem `json:"items"`
	Want    []string  `json:"want"`
	Got     []string  `json:"got"`
	Det     bool      `json:"det"`      // identical bytes over all permutations and repetitions
	IntOK   bool      `json:"intok"`    // integer-valued x-orders come out by (x-order, name)
	Conform bool      `json:"conforms"` // the whole order is the one Ordering.tla predicts
	Runs    int       `json:"runs"`
	Outs    int       `json:"outs"`
	Err     string    `json:"err"`
	Sample  string    `json:"sample"`
}

var ordCounter int

func xoValue(c string) (interface{}, bool) {
	switch c {
	case "m1":
		return -1, true
	case "n0":
		return 0, true
	case "n1":
		return 1, true
	case "n2":
		return 2, true
	case "s1":
		return "1", true
	case "s2":
		return "2", true
	case "f15":
		return 1.5, true
	case "zz":
		return "zz", true
	case "true":
		return true, true
	}
	return nil, false
}

func permutations(n int) [][]int {
	if n == 1 {
		return [][]int{{0}}
	}
	var out [][]int
	for _, p := range permutations(n - 1) {
		for i := 0; i <= len(p); i++ {
			q := append(append(append([]int{}, p[:i]...), n-1), p[i:]...)
			out = append(out, q)
		}
	}
	return out
}

func init() {
	families["order"] = &family{
		run: func(line []byte, emit func(interface{})) error {
			var c struct {
				Items []ordItem `json:"items"`
				Want  []string  `json:"want"`
			}
			if err := json.Unmarshal(line, &c); err != nil {
				return err
			}
			ordCounter++
			emit(runOrder(ordCounter, c.Items, c.Want))
			return nil
		},
	}
}

func propOrder(b []byte) []string {
	d := json.NewDecoder(bytes.NewReader(b))
	depth := 0
	var names []string
	inProps := false
	expectKey := false
	var stack []bool // per open object: is it the properties object
	for {
		t, err := d.Token()
		if err != nil {
			return names
		}
		switch x := t.(type) {
		case json.Delim:
			switch x {
			case '{':
				stack = append(stack, inProps && depth == 1)
				depth++
				expectKey = true
			case '}':
				depth--
				stack = stack[:len(stack)-1]
				expectKey = true
			case '[':
				depth++
			case ']':
				depth--
				expectKey = true
			}
			inProps = false
		case string:
			if expectKey && len(stack) > 0 {
				if depth == 1 && x == "properties" {
					inProps = true
				} else if stack[len(stack)-1] && depth == 2 {
					names = append(names, x)
				}
				expectKey = false
				continue
			}
			expectKey = true
		default:
			expectKey = true
		}
	}
}

func runOrder(id int, items []ordItem, want []string) (o *ordObs) {
	o = &ordObs{ID: id, Items: items, Want: want, Det: true, IntOK: true, Got: []string{}}
	defer func() {
		if r := recover(); r != nil {
			o.Err = ascii(fmt.Sprint(r))
		}
	}()
	outs := map[string]bool{}
	for _, perm := range permutations(len(items)) {
		var buf bytes.Buffer
		buf.WriteString(`{"type":"object","properties":{`)
		for k, idx := range perm {
			it := items[idx]
			if k > 0 {
				buf.WriteString(",")
			}
			buf.Write(mustJSON(it.Name))
			buf.WriteString(`:{"type":"string"`)
			if v, ok := xoValue(it.XO); ok {
				buf.WriteString(`,"x-order":`)
				buf.Write(mustJSON(v))
			}
			buf.WriteString("}")
		}
		buf.WriteString("}}")
		for rep := 0; rep < 3; rep++ {
			var s spec.Schema
			if err := json.Unmarshal(buf.Bytes(), &s); err != nil {
				o.Err = ascii(err.Error())
				return o
			}
			b, err := json.Marshal(s)
			if err != nil {
				o.Err = ascii(err.Error())
				return o
			}
			o.Runs++
			outs[string(b)] = true
			if o.Sample == "" {
				o.Sample = string(b)
				o.Got = propOrder(b)
			}
		}
	}
	o.Outs = len(outs)
	o.Det = len(outs) == 1
	o.Conform = fmt.Sprint(o.Got) == fmt.Sprint(want)
	// integer-valued x-orders: ordered by (x-order, name) relative to each other
	type kv struct {
		k    int
		name string
	}
	var ints []kv
	pos := map[string]int{}
	for i, n := range o.Got {
		pos[n] = i
	}
	for _, it := range items {
		switch it.XO {
		case "m1":
			ints = append(ints, kv{-1, it.Name})
		case "n0":
			ints = append(ints, kv{0, it.Name})
		case "n1":
			ints = append(ints, kv{1, it.Name})
		case "n2":
			ints = append(ints, kv{2, it.Name})
		}
	}
	sort.Slice(ints, func(i, j int) bool {
		if ints[i].k != ints[j].k {
			return ints[i].k < ints[j].k
		}
		return ints[i].name < ints[j].name
	})
	for i := 1; i < len(ints); i++ {
		if pos[ints[i-1].name] > pos[ints[i].name] {
			o.IntOK = false
		}
	}
	if len(o.Got) != len(items) {
		o.IntOK = false
	}
	return o
}
