package main

// Family "validations" (C20): states and clear programs enumerated by spec/Validations.tla are
// stepped through the real carrier objects; after every step the projected validation state,
// the callback log, the 'has' query and a digest of all other fields are recorded.

import (
	"encoding/json"
	"flag"
	"fmt"
	"os"
	"sort"
	"strings"

	"github.com/go-openapi/spec"
)

var valKeys = []string{"maximum", "exclusiveMaximum", "minimum", "exclusiveMinimum", "maxLength", "minLength", "pattern",
	"maxItems", "minItems", "uniqueItems", "multipleOf", "enum", "patternProperties", "maxProperties", "minProperties"}

type valState struct {
	C string            `json:"c"`
	V map[string]string `json:"v"`
}

type valProg struct {
	C    string   `json:"c"`
	Prog []string `json:"prog"`
	Ncb  int      `json:"ncb"`
}

type valStep struct {
	Op    string            `json:"op"`
	Fam   string            `json:"fam"`
	Ncb   int               `json:"ncb"`
	VArg  map[string]string `json:"V"`
	V     map[string]string `json:"v"`
	Log   [][]interface{}   `json:"log"`
	Other string            `json:"other"`
	Has   bool              `json:"has"`
}

type valObs struct {
	ID     int               `json:"id"`
	C      string            `json:"c"`
	V0     map[string]string `json:"v0"`
	Other0 string            `json:"other0"`
	Steps  []valStep         `json:"steps"`
	Prog   []string          `json:"prog"`
	Err    string            `json:"err"`
}

var valFlags struct {
	progs   string
	withRef bool
}
var valProgs []valProg
var valCounter int

func init() {
	families["validations"] = &family{
		flags: func(fs *flag.FlagSet) {
			fs.StringVar(&valFlags.progs, "progs", "", "programs file (ndjson)")
			fs.BoolVar(&valFlags.withRef, "withref", false, "the schema carrier also holds a $ref (validations beside a reference)")
		},
		init: func() error {
			b, err := os.ReadFile(valFlags.progs)
			if err != nil {
				return err
			}
			for _, l := range strings.Split(string(b), "\n") {
				if strings.TrimSpace(l) == "" {
					continue
				}
				var p valProg
				if err := json.Unmarshal([]byte(l), &p); err != nil {
					return err
				}
				valProgs = append(valProgs, p)
			}
			return nil
		},
		run: func(line []byte, emit func(interface{})) error {
			var s valState
			if err := json.Unmarshal(line, &s); err != nil {
				return err
			}
			for _, p := range valProgs {
				if p.C != s.C {
					continue
				}
				valCounter++
				emit(runVal(valCounter, s, p))
			}
			return nil
		},
	}
}

func fptr(cls string, nz float64) *float64 {
	switch cls {
	case "z":
		z := 0.0
		return &z
	case "v":
		return &nz
	}
	return nil
}

func iptr(cls string, nz int64) *int64 {
	switch cls {
	case "z":
		z := int64(0)
		return &z
	case "v":
		return &nz
	}
	return nil
}

// mkValidations builds the concrete validation set of an abstract assignment.
func mkValidations(v map[string]string) spec.SchemaValidations {
	var sv spec.SchemaValidations
	sv.Maximum = fptr(v["maximum"], 9.5)
	sv.Minimum = fptr(v["minimum"], -3)
	sv.MultipleOf = fptr(v["multipleOf"], 2)
	sv.ExclusiveMaximum = v["exclusiveMaximum"] == "v"
	sv.ExclusiveMinimum = v["exclusiveMinimum"] == "v"
	sv.MaxLength = iptr(v["maxLength"], 7)
	sv.MinLength = iptr(v["minLength"], 1)
	if v["pattern"] == "v" {
		sv.Pattern = "^a+$"
	}
	sv.MaxItems = iptr(v["maxItems"], 5)
	sv.MinItems = iptr(v["minItems"], 2)
	sv.UniqueItems = v["uniqueItems"] == "v"
	switch v["enum"] {
	case "z":
		sv.Enum = []interface{}{}
	case "v":
		sv.Enum = []interface{}{"a", 1.0}
	}
	switch v["patternProperties"] {
	case "z":
		sv.PatternProperties = spec.SchemaProperties{}
	case "v":
		sv.PatternProperties = spec.SchemaProperties{"^x": *spec.StringProperty()}
	}
	sv.MaxProperties = iptr(v["maxProperties"], 4)
	sv.MinProperties = iptr(v["minProperties"], 1)
	return sv
}

func clsF(p *float64) string {
	if p == nil {
		return "a"
	}
	if *p == 0 {
		return "z"
	}
	return "v"
}

func clsI(p *int64) string {
	if p == nil {
		return "a"
	}
	if *p == 0 {
		return "z"
	}
	return "v"
}

func clsB(b bool) string {
	if b {
		return "v"
	}
	return "a"
}

// project reads the validation set back into classes, for the keywords of the carrier.
func projectVal(c string, sv spec.SchemaValidations) map[string]string {
	m := map[string]string{
		"maximum": clsF(sv.Maximum), "minimum": clsF(sv.Minimum), "multipleOf": clsF(sv.MultipleOf),
		"exclusiveMaximum": clsB(sv.ExclusiveMaximum), "exclusiveMinimum": clsB(sv.ExclusiveMinimum),
		"maxLength": clsI(sv.MaxLength), "minLength": clsI(sv.MinLength), "pattern": clsB(sv.Pattern != ""),
		"maxItems": clsI(sv.MaxItems), "minItems": clsI(sv.MinItems), "uniqueItems": clsB(sv.UniqueItems),
	}
	switch {
	case sv.Enum == nil:
		m["enum"] = "a"
	case len(sv.Enum) == 0:
		m["enum"] = "z"
	default:
		m["enum"] = "v"
	}
	if c == "schema" {
		m["maxProperties"], m["minProperties"] = clsI(sv.MaxProperties), clsI(sv.MinProperties)
		switch {
		case sv.PatternProperties == nil:
			m["patternProperties"] = "a"
		case len(sv.PatternProperties) == 0:
			m["patternProperties"] = "z"
		default:
			m["patternProperties"] = "v"
		}
	}
	return m
}

func clsAny(v interface{}) string {
	switch x := v.(type) {
	case *float64:
		return clsF(x)
	case *int64:
		return clsI(x)
	case bool:
		return clsB(x)
	case string:
		return clsB(x != "")
	case spec.SchemaProperties:
		if x == nil {
			return "a"
		}
		if len(x) == 0 {
			return "z"
		}
		return "v"
	}
	return "?" + fmt.Sprintf("%T", v)
}

// carrier abstracts over the four kinds of objects.
type carrier struct {
	kind   string
	schema *spec.Schema
	param  *spec.Parameter
	header *spec.Header
	items  *spec.Items
}

func newCarrier(kind string) *carrier {
	c := &carrier{kind: kind}
	switch kind {
	case "schema":
		c.schema = spec.StringProperty().WithTitle("sentinel").WithDescription("other").WithRequired("q")
		c.schema.SetProperty("q", *spec.Int64Property())
		c.schema.AddExtension("x-keep", "me")
		if valFlags.withRef {
			c.schema.Ref = spec.MustCreateRef("#/definitions/X")
		}
	case "parameter":
		c.param = spec.QueryParam("sentinel").Typed("array", "csv").WithDescription("other").AsRequired()
		c.param.AddExtension("x-keep", "me")
	case "header":
		c.header = spec.ResponseHeader().Typed("integer", "int32").WithDescription("sentinel")
	case "items":
		c.items = spec.NewItems().Typed("string", "date").CollectionOf(spec.NewItems().Typed("string", ""), "csv")
	}
	return c
}

func (c *carrier) get() spec.SchemaValidations {
	switch c.kind {
	case "schema":
		return c.schema.Validations()
	case "parameter":
		return c.param.Validations()
	case "header":
		return c.header.Validations()
	}
	return c.items.Validations()
}

func (c *carrier) set(v spec.SchemaValidations) {
	switch c.kind {
	case "schema":
		c.schema.SetValidations(v)
	case "parameter":
		c.param.SetValidations(v)
	case "header":
		c.header.SetValidations(v)
	default:
		c.items.SetValidations(v)
	}
}

func (c *carrier) json() []byte {
	var b []byte
	switch c.kind {
	case "schema":
		b, _ = json.Marshal(c.schema)
	case "parameter":
		b, _ = json.Marshal(c.param)
	case "header":
		b, _ = json.Marshal(c.header)
	default:
		b, _ = json.Marshal(c.items)
	}
	return b
}

func (c *carrier) other() string {
	var m map[string]interface{}
	_ = json.Unmarshal(c.json(), &m)
	for _, k := range valKeys {
		delete(m, k)
	}
	return digest(m)
}

func (c *carrier) clear(fam string, cbs []func(string, interface{})) bool {
	switch c.kind {
	case "schema":
		// a schema exposes its validations through Validations / SetValidations
		v := c.schema.Validations()
		has := clearOn(&v.CommonValidations, &v, fam, cbs)
		c.schema.SetValidations(v)
		_ = has
		return hasOn(c.schema.Validations().CommonValidations, c.schema.Validations(), fam)
	case "parameter":
		clearOn(&c.param.CommonValidations, nil, fam, cbs)
		return hasOn(c.param.CommonValidations, spec.SchemaValidations{}, fam)
	case "header":
		clearOn(&c.header.CommonValidations, nil, fam, cbs)
		return hasOn(c.header.CommonValidations, spec.SchemaValidations{}, fam)
	}
	clearOn(&c.items.CommonValidations, nil, fam, cbs)
	return hasOn(c.items.CommonValidations, spec.SchemaValidations{}, fam)
}

func clearOn(cv *spec.CommonValidations, sv *spec.SchemaValidations, fam string, cbs []func(string, interface{})) bool {
	switch fam {
	case "number":
		cv.ClearNumberValidations(cbs...)
	case "string":
		cv.ClearStringValidations(cbs...)
	case "array":
		cv.ClearArrayValidations(cbs...)
	case "object":
		sv.ClearObjectValidations(cbs...)
	}
	return true
}

func hasOn(cv spec.CommonValidations, sv spec.SchemaValidations, fam string) bool {
	switch fam {
	case "number":
		return cv.HasNumberValidations()
	case "string":
		return cv.HasStringValidations()
	case "array":
		return cv.HasArrayValidations()
	}
	return sv.HasObjectValidations()
}

func runVal(id int, s valState, p valProg) (o *valObs) {
	o = &valObs{ID: id, C: s.C, V0: s.V, Prog: p.Prog, Steps: []valStep{}}
	defer func() {
		if r := recover(); r != nil {
			o.Err = ascii(fmt.Sprint(r))
		}
	}()
	c := newCarrier(s.C)
	c.set(mkValidations(s.V))
	o.Other0 = c.other()
	cur := func() map[string]string { return projectVal(s.C, c.get()) }
	// the state actually installed must be the requested one (SetGet on the initial state)
	o.Steps = append(o.Steps, valStep{Op: "setget", VArg: fullV(s.V), V: cur(), Other: c.other(), Log: [][]interface{}{}})
	for _, fam := range p.Prog {
		var log [][]interface{}
		var cbs []func(string, interface{})
		for i := 1; i <= p.Ncb; i++ {
			i := i
			cbs = append(cbs, func(k string, v interface{}) { log = append(log, []interface{}{i, k, clsAny(v)}) })
		}
		has := c.clear(fam, cbs)
		if log == nil {
			log = [][]interface{}{}
		}
		o.Steps = append(o.Steps, valStep{Op: "clear", Fam: fam, Ncb: p.Ncb, VArg: map[string]string{}, V: cur(), Log: log, Other: c.other(), Has: has})
		// reading and writing back changes nothing
		c.set(c.get())
		o.Steps = append(o.Steps, valStep{Op: "getset", VArg: map[string]string{}, V: cur(), Other: c.other(), Log: [][]interface{}{}})
	}
	// write the complement, read it back
	comp := map[string]string{}
	for _, k := range valKeys {
		if s.V[k] == "" || s.V[k] == "a" {
			comp[k] = []string{"v", "z"}[id%2]
		} else {
			comp[k] = "a"
		}
	}
	c.set(mkValidations(comp))
	o.Steps = append(o.Steps, valStep{Op: "setget", VArg: comp, V: cur(), Other: c.other(), Log: [][]interface{}{}})
	return o
}

func fullV(v map[string]string) map[string]string {
	m := map[string]string{}
	for _, k := range valKeys {
		m[k] = "a"
		if x, ok := v[k]; ok {
			m[k] = x
		}
	}
	return m
}

var _ = sort.Strings
