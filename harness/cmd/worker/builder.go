package main

// Family "builder" (C06): model values obtained through the exported builder API are encoded;
// the text must be valid JSON without duplicate member names, parse back to what a second
// encoding of the decoded value gives, and be byte-stable.

import (
	"bytes"
	"encoding/json"
	"fmt"
	"math"
	"reflect"
	"sort"
	"strings"

	"github.com/go-openapi/spec"
)

type builderObs struct {
	Prog    int    `json:"prog"`
	Name    string `json:"name"`
	Skip    bool   `json:"skip"`
	OK      bool   `json:"ok"`
	Why     string `json:"why"`
	Encoded string `json:"encoded"`
}

type builderProg struct {
	name string
	mk   func() (interface{}, func() interface{})
	// must: member names the encoding has to carry whenever encoding succeeds
	must []string
	// want: members that must have exactly this JSON value
	want map[string]string
}

func builderProgs() []builderProg {
	weird := "quo\"te\\back\nlineé"
	return []builderProg{
		{"schema.SetProperty+x-order ties", func() (interface{}, func() interface{}) {
			s := spec.MapProperty(spec.StringProperty())
			for _, n := range []string{"b", "a", "c", weird} {
				p := spec.StringProperty()
				p.AddExtension("x-order", 1)
				s.SetProperty(n, *p)
			}
			return s, func() interface{} { return &spec.Schema{} }
		}, nil, nil},
		{"schema.AddExtension mixed case + ExtraProps", func() (interface{}, func() interface{}) {
			s := spec.StringProperty().WithTitle("t")
			s.AddExtension("X-Upper", 1)
			s.AddExtension("x-upper", 2)
			s.AddExtension("not-an-extension", 3)
			s.ExtraProps = map[string]interface{}{"extra": []interface{}{}}
			return s, func() interface{} { return &spec.Schema{} }
		}, nil, nil},
		{"schema.validations+enum+default+example", func() (interface{}, func() interface{}) {
			s := spec.Int64Property().WithMinimum(0, true).WithMaximum(0, false).WithEnum(1, "a", nil).WithDefault(weird).WithExample(map[string]interface{}{weird: weird})
			return s, func() interface{} { return &spec.Schema{} }
		}, nil, nil},
		{"schema.allOf+required+discriminator+xml", func() (interface{}, func() interface{}) {
			s := spec.ComposedSchema(*spec.RefProperty("#/definitions/A"), *spec.StringProperty()).WithRequired("a", "a", weird).WithDiscriminator(weird).AsWrappedXML().WithXMLName(weird)
			return s, func() interface{} { return &spec.Schema{} }
		}, nil, nil},
		{"schema.patternProperties regex", func() (interface{}, func() interface{}) {
			s := &spec.Schema{}
			s.PatternProperties = spec.SchemaProperties{"^a\\d+$": *spec.StringProperty(), "\"": *spec.BoolProperty()}
			s.Dependencies = spec.Dependencies{weird: spec.SchemaOrStringArray{Property: []string{weird}}}
			return s, func() interface{} { return &spec.Schema{} }
		}, nil, nil},
		{"parameter.builders", func() (interface{}, func() interface{}) {
			p := spec.QueryParam(weird).Typed("array", "").CollectionOf(spec.NewItems().Typed("string", "date"), "csv").WithDescription(weird).AsRequired().AllowsEmptyValues()
			p.AddExtension("x-"+weird, weird)
			p.WithDefault([]interface{}{}).WithEnum("a").WithMaxItems(0).WithMinLength(0)
			return p, func() interface{} { return &spec.Parameter{} }
		}, nil, nil},
		{"parameter.body", func() (interface{}, func() interface{}) {
			p := spec.BodyParam("b", spec.RefSchema("#/definitions/"+weird)).AsOptional()
			return p, func() interface{} { return &spec.Parameter{} }
		}, nil, nil},
		{"header.builders", func() (interface{}, func() interface{}) {
			h := spec.ResponseHeader().Typed("integer", "int64").WithDescription(weird).WithMaximum(0, true).WithDefault(0)
			h.AddExtension("x-h", weird)
			return h, func() interface{} { return &spec.Header{} }
		}, nil, nil},
		{"items.builders", func() (interface{}, func() interface{}) {
			i := spec.NewItems().Typed("array", "").CollectionOf(spec.NewItems().Typed("string", ""), "pipes").WithEnum("x", "x").AsNullable()
			i.AddExtension("x-i", []interface{}{})
			return i, func() interface{} { return &spec.Items{} }
		}, nil, nil},
		{"response.builders", func() (interface{}, func() interface{}) {
			r := spec.NewResponse().WithDescription("").WithSchema(spec.StringProperty()).AddHeader(weird, spec.ResponseHeader().Typed("string", "")).AddExample("application/json", map[string]interface{}{"a": nil})
			r.AddExtension("x-r", 1)
			return r, func() interface{} { return &spec.Response{} }
		}, nil, nil},
		{"responses+operation.builders", func() (interface{}, func() interface{}) {
			op := spec.NewOperation(weird).WithTags("a", "a").WithConsumes("x/y").WithProduces().WithSummary(weird).Deprecate().
				AddParam(spec.QueryParam("q")).AddParam(spec.QueryParam("q")).AddParam(spec.HeaderParam("q")).
				RespondsWith(200, spec.NewResponse().WithDescription("ok")).RespondsWith(200, spec.NewResponse().WithDescription("again")).
				WithDefaultResponse(spec.NewResponse().WithDescription("d")).SecuredWith("k", "s1").SecuredWith("k")
			op.RemoveParam("q", "header")
			op.AddExtension("x-op", weird)
			op.Responses.AddExtension("x-resp", 1)
			return op, func() interface{} { return &spec.Operation{} }
		}, nil, nil},
		{"securityScheme.builders", func() (interface{}, func() interface{}) {
			s := spec.OAuth2AccessToken("http://a.example", "http://t.example")
			s.AddScope(weird, weird)
			s.AddScope(weird, "again")
			s.AddExtension("x-s", true)
			return s, func() interface{} { return &spec.SecurityScheme{} }
		}, nil, nil},
		{"securityScheme.apikey+basic", func() (interface{}, func() interface{}) {
			s := spec.APIKeyAuth(weird, "header")
			_ = spec.BasicAuth()
			return s, func() interface{} { return &spec.SecurityScheme{} }
		}, nil, nil},
		{"tag+info+license.builders", func() (interface{}, func() interface{}) {
			t := spec.NewTag(weird, weird, &spec.ExternalDocumentation{Description: weird, URL: "http://e.example"})
			t.AddExtension("x-t", weird)
			return &t, func() interface{} { return &spec.Tag{} }
		}, nil, nil},
		{"swagger.assembled", func() (interface{}, func() interface{}) {
			sw := &spec.Swagger{}
			sw.Swagger = "2.0"
			sw.Info = &spec.Info{}
			sw.Info.Title, sw.Info.Version = weird, "1"
			sw.Info.AddExtension("x-info", weird)
			sw.Paths = &spec.Paths{Paths: map[string]spec.PathItem{"/" + weird: {}}}
			sw.Paths.AddExtension("x-paths", 1)
			sw.Definitions = spec.Definitions{weird: *spec.StringProperty()}
			sw.Security = []map[string][]string{{"k": {}}, {}}
			sw.AddExtension("x-root", nil)
			return sw, func() interface{} { return &spec.Swagger{} }
		}, nil, nil},
		{"schema with an unencodable example + unknown keyword", func() (interface{}, func() interface{}) {
			s := spec.StringProperty().WithDiscriminator("kind").AsReadOnly().WithExternalDocs("d", "http://e.example").WithExample(math.NaN())
			s.ExtraProps = map[string]interface{}{"const": 1}
			return s, func() interface{} { return &spec.Schema{} }
		}, []string{"discriminator", "readOnly", "externalDocs", "const", "type"}, nil},
		{"schema with an unencodable extension", func() (interface{}, func() interface{}) {
			s := spec.StringProperty().WithTitle("t").WithDiscriminator("kind")
			s.AddExtension("x-bad", map[interface{}]interface{}{1: "a"})
			s.ExtraProps = map[string]interface{}{"const": 1}
			return s, func() interface{} { return &spec.Schema{} }
		}, []string{"title", "discriminator", "const"}, nil},
		{"parameter with an unencodable default", func() (interface{}, func() interface{}) {
			p := spec.QueryParam("q").Typed("number", "").WithDefault(math.Inf(1)).WithDescription("d")
			p.AddExtension("x-p", 1)
			return p, func() interface{} { return &spec.Parameter{} }
		}, []string{"name", "in", "type", "description", "x-p"}, nil},
		{"response with an unencodable example", func() (interface{}, func() interface{}) {
			r := spec.NewResponse().WithDescription("d").WithSchema(spec.StringProperty()).AddExample("application/json", make(chan int))
			r.AddExtension("x-r", 1)
			return r, func() interface{} { return &spec.Response{} }
		}, []string{"description", "schema", "x-r"}, nil},
		{"operation with an unencodable extension", func() (interface{}, func() interface{}) {
			op := spec.NewOperation("id").WithSummary("s").RespondsWith(200, spec.NewResponse().WithDescription("ok"))
			op.AddExtension("x-op", func() {})
			return op, func() interface{} { return &spec.Operation{} }
		}, []string{"operationId", "summary", "responses"}, nil},
		{"pathItem.assembled", func() (interface{}, func() interface{}) {
			pi := &spec.PathItem{}
			pi.Get = spec.NewOperation("g").RespondsWith(200, spec.NewResponse().WithDescription("ok"))
			pi.Parameters = []spec.Parameter{*spec.PathParam("id").Typed("string", "")}
			pi.AddExtension("x-pi", weird)
			return pi, func() interface{} { return &spec.PathItem{} }
		}, nil, nil},
	}
}

func init() {
	families["builder"] = &family{
		run: func(line []byte, emit func(interface{})) error {
			var c struct {
				Prog int `json:"prog"`
			}
			if err := json.Unmarshal(line, &c); err != nil {
				return err
			}
			progs := append(builderProgs(), allFieldsProgs()...)
			if c.Prog >= len(progs) {
				emit(&builderObs{Prog: c.Prog, Skip: true})
				return nil
			}
			emit(runBuilder(c.Prog, progs[c.Prog]))
			return nil
		},
	}
}

func runBuilder(i int, p builderProg) (o *builderObs) {
	o = &builderObs{Prog: i, Name: p.name, OK: true}
	defer func() {
		if r := recover(); r != nil {
			o.OK, o.Why = false, "panic: "+ascii(fmt.Sprint(r))
		}
	}()
	v, fresh := p.mk()
	b, err := json.Marshal(v)
	if err != nil {
		return o // an error is an acceptable outcome
	}
	o.Encoded = ascii(trim(string(b), 600))
	dups, derr := dupNames(b)
	if derr != nil {
		o.OK, o.Why = false, "the text is not valid JSON: "+derr.Error()
		return o
	}
	if len(dups) > 0 {
		o.OK, o.Why = false, fmt.Sprintf("member names emitted twice: %v", dups)
		return o
	}
	if len(p.must) > 0 {
		var top map[string]json.RawMessage
		_ = json.Unmarshal(b, &top)
		for _, m := range p.must {
			if _, ok := top[m]; !ok {
				o.OK, o.Why = false, "encoding succeeded but the member "+m+" that the value holds is missing from the text"
				return o
			}
		}
	}
	if len(p.want) > 0 {
		var top map[string]json.RawMessage
		_ = json.Unmarshal(b, &top)
		for m, w := range p.want {
			if !jsonEq(top[m], []byte(w)) {
				o.OK, o.Why = false, "the model holds "+m+" = "+w+", the text says "+ascii(trim(string(top[m]), 120))
				return o
			}
		}
	}
	for k := 0; k < 4; k++ {
		b2, err := json.Marshal(v)
		if err != nil || !bytes.Equal(b, b2) {
			o.OK, o.Why = false, "encoding the same value again gives different bytes"
			return o
		}
	}
	// the text parses to what the model holds: decoding it and encoding again is stable
	t := fresh()
	if err := json.Unmarshal(b, t); err != nil {
		o.OK, o.Why = false, "the package cannot decode its own encoding: "+ascii(err.Error())
		return o
	}
	b3, err := json.Marshal(t)
	if err != nil {
		return o
	}
	x, _ := decodeExact(b)
	y, _ := decodeExact(b3)
	if d := jsonDiff(x, y, ""); d != "" {
		o.OK, o.Why = false, "the text parses to something else than the model holds: "+ascii(d)
	}
	return o
}

// ---- generic program: every exported field of a model type set to a non-zero value ----

var refType = reflect.TypeOf(spec.Ref{})

// populate sets every settable exported field below v to a non-zero value.
func populate(v reflect.Value, depth int) {
	switch v.Kind() {
	case reflect.Ptr:
		if depth <= 0 && v.Type().Elem().Kind() == reflect.Struct {
			return
		}
		switch v.Type().Elem().Name() {
		case "SchemaOrArray", "SchemaOrBool":
			// unions: the single-schema alternative, or nothing when the depth is used up
			if depth <= 1 {
				return
			}
			n := reflect.New(v.Type().Elem())
			populate(n.Elem().FieldByName("Schema"), depth-1)
			if f := n.Elem().FieldByName("Allows"); f.IsValid() {
				f.SetBool(true)
			}
			v.Set(n)
			return
		}
		n := reflect.New(v.Type().Elem())
		populate(n.Elem(), depth-1)
		v.Set(n)
	case reflect.Struct:
		if v.Type().Name() == "SchemaOrStringArray" {
			v.FieldByName("Property").Set(reflect.ValueOf([]string{"p"}))
			return
		}
		if v.Type() == refType {
			v.Set(reflect.ValueOf(spec.MustCreateRef("#/definitions/X")))
			return
		}
		for i := 0; i < v.NumField(); i++ {
			f := v.Type().Field(i)
			if f.PkgPath != "" { // unexported
				continue
			}
			populate(v.Field(i), depth)
		}
	case reflect.String:
		v.SetString("s")
	case reflect.Bool:
		v.SetBool(true)
	case reflect.Int, reflect.Int64, reflect.Int32:
		v.SetInt(1)
	case reflect.Float64:
		v.SetFloat(1)
	case reflect.Interface:
		v.Set(reflect.ValueOf("v"))
	case reflect.Slice:
		if depth <= 0 && v.Type().Elem().Kind() == reflect.Struct {
			return
		}
		s := reflect.MakeSlice(v.Type(), 1, 1)
		populate(s.Index(0), depth-1)
		v.Set(s)
	case reflect.Map:
		if depth <= 0 && v.Type().Elem().Kind() == reflect.Struct {
			return
		}
		m := reflect.MakeMap(v.Type())
		e := reflect.New(v.Type().Elem()).Elem()
		populate(e, depth-1)
		key := "k"
		if v.Type().Key().Kind() == reflect.Int {
			m.SetMapIndex(reflect.ValueOf(200), e)
		} else {
			m.SetMapIndex(reflect.ValueOf(key).Convert(v.Type().Key()), e)
		}
		v.Set(m)
	}
}

// jsonNames lists the member names the struct tags of t (embedded structs included) announce.
func jsonNames(t reflect.Type, out map[string]bool) {
	for i := 0; i < t.NumField(); i++ {
		f := t.Field(i)
		if f.PkgPath != "" && !f.Anonymous {
			continue
		}
		tag := strings.Split(f.Tag.Get("json"), ",")[0]
		if f.Anonymous && tag == "" {
			ft := f.Type
			if ft.Kind() == reflect.Ptr {
				ft = ft.Elem()
			}
			if ft.Kind() == reflect.Struct && ft != refType {
				jsonNames(ft, out)
			}
			continue
		}
		if tag != "" && tag != "-" {
			out[tag] = true
		}
	}
}

func allFieldsProg(name string, mk func() interface{}, fresh func() interface{}, fix func(v interface{}), skip ...string) builderProg {
	var must []string
	names := map[string]bool{}
	jsonNames(reflect.TypeOf(mk()).Elem(), names)
	for _, s := range skip {
		delete(names, s)
	}
	for n := range names {
		must = append(must, n)
	}
	sort.Strings(must)
	return builderProg{"every field of " + name + " set", func() (interface{}, func() interface{}) {
		v := mk()
		populate(reflect.ValueOf(v).Elem(), 2)
		if fix != nil {
			fix(v)
		}
		return v, fresh
	}, must, nil}
}

// fixExt gives the extension maps a legal key (populate uses "k").
func fixExt(ve *spec.VendorExtensible) {
	ve.Extensions = spec.Extensions{"x-k": "v"}
}

func allFieldsProgs() []builderProg {
	return []builderProg{
		allFieldsProg("SecurityScheme(basic)", func() interface{} { return &spec.SecurityScheme{} }, func() interface{} { return &spec.SecurityScheme{} },
			func(v interface{}) { s := v.(*spec.SecurityScheme); s.Type = "basic"; fixExt(&s.VendorExtensible) }),
		allFieldsProg("SecurityScheme(oauth2 password)", func() interface{} { return &spec.SecurityScheme{} }, func() interface{} { return &spec.SecurityScheme{} },
			func(v interface{}) {
				s := v.(*spec.SecurityScheme)
				s.Type, s.Flow = "oauth2", "password"
				fixExt(&s.VendorExtensible)
			}),
		allFieldsProg("SecurityScheme(oauth2 implicit)", func() interface{} { return &spec.SecurityScheme{} }, func() interface{} { return &spec.SecurityScheme{} },
			func(v interface{}) {
				s := v.(*spec.SecurityScheme)
				s.Type, s.Flow = "oauth2", "implicit"
				fixExt(&s.VendorExtensible)
			}),
		allFieldsProg("Response", func() interface{} { return &spec.Response{} }, func() interface{} { return &spec.Response{} },
			func(v interface{}) { r := v.(*spec.Response); r.Ref = spec.Ref{}; fixExt(&r.VendorExtensible) }, "$ref"),
		allFieldsProg("Header", func() interface{} { return &spec.Header{} }, func() interface{} { return &spec.Header{} },
			func(v interface{}) { h := v.(*spec.Header); fixExt(&h.VendorExtensible) }),
		allFieldsProg("Items", func() interface{} { return &spec.Items{} }, func() interface{} { return &spec.Items{} },
			func(v interface{}) { i := v.(*spec.Items); i.Ref = spec.Ref{}; fixExt(&i.VendorExtensible) }, "$ref"),
		allFieldsProg("Parameter", func() interface{} { return &spec.Parameter{} }, func() interface{} { return &spec.Parameter{} },
			func(v interface{}) { p := v.(*spec.Parameter); p.Ref = spec.Ref{}; fixExt(&p.VendorExtensible) }, "$ref"),
		allFieldsProg("Operation", func() interface{} { return &spec.Operation{} }, func() interface{} { return &spec.Operation{} },
			func(v interface{}) { o := v.(*spec.Operation); fixExt(&o.VendorExtensible) }),
		allFieldsProg("PathItem", func() interface{} { return &spec.PathItem{} }, func() interface{} { return &spec.PathItem{} },
			func(v interface{}) { p := v.(*spec.PathItem); p.Ref = spec.Ref{}; fixExt(&p.VendorExtensible) }, "$ref"),
		allFieldsProg("Info", func() interface{} { return &spec.Info{} }, func() interface{} { return &spec.Info{} },
			func(v interface{}) { i := v.(*spec.Info); fixExt(&i.VendorExtensible) }),
		allFieldsProg("Tag", func() interface{} { return &spec.Tag{} }, func() interface{} { return &spec.Tag{} },
			func(v interface{}) { t := v.(*spec.Tag); fixExt(&t.VendorExtensible) }),
		allFieldsProg("Swagger", func() interface{} { return &spec.Swagger{} }, func() interface{} { return &spec.Swagger{} },
			func(v interface{}) { s := v.(*spec.Swagger); fixExt(&s.VendorExtensible) }),
		allFieldsProg("Schema", func() interface{} { return &spec.Schema{} }, func() interface{} { return &spec.Schema{} },
			func(v interface{}) {
				s := v.(*spec.Schema)
				s.Ref = spec.Ref{}
				s.ExtraProps = map[string]interface{}{"extra": "v"}
				fixExt(&s.VendorExtensible)
			}, "$ref"),
		allFieldsProg("XMLObject", func() interface{} { return &spec.XMLObject{} }, func() interface{} { return &spec.XMLObject{} }, nil),
		allFieldsProg("ExternalDocumentation", func() interface{} { return &spec.ExternalDocumentation{} }, func() interface{} { return &spec.ExternalDocumentation{} }, nil),
		allFieldsProg("ContactInfo", func() interface{} { return &spec.ContactInfo{} }, func() interface{} { return &spec.ContactInfo{} },
			func(v interface{}) { c := v.(*spec.ContactInfo); fixExt(&c.VendorExtensible) }),
		allFieldsProg("License", func() interface{} { return &spec.License{} }, func() interface{} { return &spec.License{} },
			func(v interface{}) { l := v.(*spec.License); fixExt(&l.VendorExtensible) }),
		// boolean-or-schema unions assembled by hand: the schema is what the model holds, whatever the Allows flag says
		{"schema unions built as &SchemaOrBool{Schema: s}", func() (interface{}, func() interface{}) {
			s := &spec.Schema{}
			s.Typed("object", "")
			s.AdditionalProperties = &spec.SchemaOrBool{Schema: spec.StringProperty()}
			s.AdditionalItems = &spec.SchemaOrBool{Schema: spec.BoolProperty()}
			s.Items = &spec.SchemaOrArray{Schemas: []spec.Schema{*spec.StringProperty()}}
			s.Dependencies = spec.Dependencies{"a": {Schema: spec.Int32Property()}, "b": {Property: []string{"c"}}}
			return s, func() interface{} { return &spec.Schema{} }
		}, nil, map[string]string{"additionalProperties": `{"type":"string"}`, "additionalItems": `{"type":"boolean"}`,
			"items": `[{"type":"string"}]`, "dependencies": `{"a":{"type":"integer","format":"int32"},"b":["c"]}`}},
		{"schema unions built as &SchemaOrBool{Allows: true} / {Allows: false}", func() (interface{}, func() interface{}) {
			s := &spec.Schema{}
			s.AdditionalProperties = &spec.SchemaOrBool{Allows: true}
			s.AdditionalItems = &spec.SchemaOrBool{}
			return s, func() interface{} { return &spec.Schema{} }
		}, nil, map[string]string{"additionalProperties": `true`, "additionalItems": `false`}},
		// a Paths value built in Go whose map has a key that is no path and equals an extension name
		{"paths built with a key that equals an extension name", func() (interface{}, func() interface{}) {
			p := &spec.Paths{Paths: map[string]spec.PathItem{"/a": {}, "x-internal": {}}}
			p.AddExtension("x-internal", true)
			return p, func() interface{} { return &spec.Paths{} }
		}, nil, nil},
	}
}
