package main

// Family "builder" (C06): model values obtained through the exported builder API are encoded;
// the text must be valid JSON without duplicate member names, parse back to what a second
// encoding of the decoded value gives, and be byte-stable.

import (
	"bytes"
	"encoding/json"
	"fmt"
	"math"

	"github.com/go-openapi/spec"
)

type builderObs struct {
	Prog    int    `json:"prog"`
	Name    string `json:"name"`
	Skip    bool   `json:"skip"`
	OK      bool   `json:"ok"`
	Why     string `json:"why"`
	Encoded string `json:"encoded"`
}

type builderProg struct {
	name string
	mk   func() (interface{}, func() interface{})
	// must: member names the encoding has to carry whenever encoding succeeds
	must []string
}

func builderProgs() []builderProg {
	weird := "quo\"te\\back\nlineé"
	return []builderProg{
		{"schema.SetProperty+x-order ties", func() (interface{}, func() interface{}) {
			s := spec.MapProperty(spec.StringProperty())
			for _, n := range []string{"b", "a", "c", weird} {
				p := spec.StringProperty()
				p.AddExtension("x-order", 1)
				s.SetProperty(n, *p)
			}
			return s, func() interface{} { return &spec.Schema{} }
		}, nil},
		{"schema.AddExtension mixed case + ExtraProps", func() (interface{}, func() interface{}) {
			s := spec.StringProperty().WithTitle("t")
			s.AddExtension("X-Upper", 1)
			s.AddExtension("x-upper", 2)
			s.AddExtension("not-an-extension", 3)
			s.ExtraProps = map[string]interface{}{"extra": []interface{}{}}
			return s, func() interface{} { return &spec.Schema{} }
		}, nil},
		{"schema.validations+enum+default+example", func() (interface{}, func() interface{}) {
			s := spec.Int64Property().WithMinimum(0, true).WithMaximum(0, false).WithEnum(1, "a", nil).WithDefault(weird).WithExample(map[string]interface{}{weird: weird})
			return s, func() interface{} { return &spec.Schema{} }
		}, nil},
		{"schema.allOf+required+discriminator+xml", func() (interface{}, func() interface{}) {
			s := spec.ComposedSchema(*spec.RefProperty("#/definitions/A"), *spec.StringProperty()).WithRequired("a", "a", weird).WithDiscriminator(weird).AsWrappedXML().WithXMLName(weird)
			return s, func() interface{} { return &spec.Schema{} }
		}, nil},
		{"schema.patternProperties regex", func() (interface{}, func() interface{}) {
			s := &spec.Schema{}
			s.PatternProperties = spec.SchemaProperties{"^a\\d+$": *spec.StringProperty(), "\"": *spec.BoolProperty()}
			s.Dependencies = spec.Dependencies{weird: spec.SchemaOrStringArray{Property: []string{weird}}}
			return s, func() interface{} { return &spec.Schema{} }
		}, nil},
		{"parameter.builders", func() (interface{}, func() interface{}) {
			p := spec.QueryParam(weird).Typed("array", "").CollectionOf(spec.NewItems().Typed("string", "date"), "csv").WithDescription(weird).AsRequired().AllowsEmptyValues()
			p.AddExtension("x-"+weird, weird)
			p.WithDefault([]interface{}{}).WithEnum("a").WithMaxItems(0).WithMinLength(0)
			return p, func() interface{} { return &spec.Parameter{} }
		}, nil},
		{"parameter.body", func() (interface{}, func() interface{}) {
			p := spec.BodyParam("b", spec.RefSchema("#/definitions/"+weird)).AsOptional()
			return p, func() interface{} { return &spec.Parameter{} }
		}, nil},
		{"header.builders", func() (interface{}, func() interface{}) {
			h := spec.ResponseHeader().Typed("integer", "int64").WithDescription(weird).WithMaximum(0, true).WithDefault(0)
			h.AddExtension("x-h", weird)
			return h, func() interface{} { return &spec.Header{} }
		}, nil},
		{"items.builders", func() (interface{}, func() interface{}) {
			i := spec.NewItems().Typed("array", "").CollectionOf(spec.NewItems().Typed("string", ""), "pipes").WithEnum("x", "x").AsNullable()
			i.AddExtension("x-i", []interface{}{})
			return i, func() interface{} { return &spec.Items{} }
		}, nil},
		{"response.builders", func() (interface{}, func() interface{}) {
			r := spec.NewResponse().WithDescription("").WithSchema(spec.StringProperty()).AddHeader(weird, spec.ResponseHeader().Typed("string", "")).AddExample("application/json", map[string]interface{}{"a": nil})
			r.AddExtension("x-r", 1)
			return r, func() interface{} { return &spec.Response{} }
		}, nil},
		{"responses+operation.builders", func() (interface{}, func() interface{}) {
			op := spec.NewOperation(weird).WithTags("a", "a").WithConsumes("x/y").WithProduces().WithSummary(weird).Deprecate().
				AddParam(spec.QueryParam("q")).AddParam(spec.QueryParam("q")).AddParam(spec.HeaderParam("q")).
				RespondsWith(200, spec.NewResponse().WithDescription("ok")).RespondsWith(200, spec.NewResponse().WithDescription("again")).
				WithDefaultResponse(spec.NewResponse().WithDescription("d")).SecuredWith("k", "s1").SecuredWith("k")
			op.RemoveParam("q", "header")
			op.AddExtension("x-op", weird)
			op.Responses.AddExtension("x-resp", 1)
			return op, func() interface{} { return &spec.Operation{} }
		}, nil},
		{"securityScheme.builders", func() (interface{}, func() interface{}) {
			s := spec.OAuth2AccessToken("http://a.example", "http://t.example")
			s.AddScope(weird, weird)
			s.AddScope(weird, "again")
			s.AddExtension("x-s", true)
			return s, func() interface{} { return &spec.SecurityScheme{} }
		}, nil},
		{"securityScheme.apikey+basic", func() (interface{}, func() interface{}) {
			s := spec.APIKeyAuth(weird, "header")
			_ = spec.BasicAuth()
			return s, func() interface{} { return &spec.SecurityScheme{} }
		}, nil},
		{"tag+info+license.builders", func() (interface{}, func() interface{}) {
			t := spec.NewTag(weird, weird, &spec.ExternalDocumentation{Description: weird, URL: "http://e.example"})
			t.AddExtension("x-t", weird)
			return &t, func() interface{} { return &spec.Tag{} }
		}, nil},
		{"swagger.assembled", func() (interface{}, func() interface{}) {
			sw := &spec.Swagger{}
			sw.Swagger = "2.0"
			sw.Info = &spec.Info{}
			sw.Info.Title, sw.Info.Version = weird, "1"
			sw.Info.AddExtension("x-info", weird)
			sw.Paths = &spec.Paths{Paths: map[string]spec.PathItem{"/" + weird: {}}}
			sw.Paths.AddExtension("x-paths", 1)
			sw.Definitions = spec.Definitions{weird: *spec.StringProperty()}
			sw.Security = []map[string][]string{{"k": {}}, {}}
			sw.AddExtension("x-root", nil)
			return sw, func() interface{} { return &spec.Swagger{} }
		}, nil},
		{"schema with an unencodable example + unknown keyword", func() (interface{}, func() interface{}) {
			s := spec.StringProperty().WithDiscriminator("kind").AsReadOnly().WithExternalDocs("d", "http://e.example").WithExample(math.NaN())
			s.ExtraProps = map[string]interface{}{"const": 1}
			return s, func() interface{} { return &spec.Schema{} }
		}, []string{"discriminator", "readOnly", "externalDocs", "const", "type"}},
		{"schema with an unencodable extension", func() (interface{}, func() interface{}) {
			s := spec.StringProperty().WithTitle("t").WithDiscriminator("kind")
			s.AddExtension("x-bad", map[interface{}]interface{}{1: "a"})
			s.ExtraProps = map[string]interface{}{"const": 1}
			return s, func() interface{} { return &spec.Schema{} }
		}, []string{"title", "discriminator", "const"}},
		{"parameter with an unencodable default", func() (interface{}, func() interface{}) {
			p := spec.QueryParam("q").Typed("number", "").WithDefault(math.Inf(1)).WithDescription("d")
			p.AddExtension("x-p", 1)
			return p, func() interface{} { return &spec.Parameter{} }
		}, []string{"name", "in", "type", "description", "x-p"}},
		{"response with an unencodable example", func() (interface{}, func() interface{}) {
			r := spec.NewResponse().WithDescription("d").WithSchema(spec.StringProperty()).AddExample("application/json", make(chan int))
			r.AddExtension("x-r", 1)
			return r, func() interface{} { return &spec.Response{} }
		}, []string{"description", "schema", "x-r"}},
		{"operation with an unencodable extension", func() (interface{}, func() interface{}) {
			op := spec.NewOperation("id").WithSummary("s").RespondsWith(200, spec.NewResponse().WithDescription("ok"))
			op.AddExtension("x-op", func() {})
			return op, func() interface{} { return &spec.Operation{} }
		}, []string{"operationId", "summary", "responses"}},
		{"pathItem.assembled", func() (interface{}, func() interface{}) {
			pi := &spec.PathItem{}
			pi.Get = spec.NewOperation("g").RespondsWith(200, spec.NewResponse().WithDescription("ok"))
			pi.Parameters = []spec.Parameter{*spec.PathParam("id").Typed("string", "")}
			pi.AddExtension("x-pi", weird)
			return pi, func() interface{} { return &spec.PathItem{} }
		}, nil},
	}
}

func init() {
	families["builder"] = &family{
		run: func(line []byte, emit func(interface{})) error {
			var c struct {
				Prog int `json:"prog"`
			}
			if err := json.Unmarshal(line, &c); err != nil {
				return err
			}
			progs := builderProgs()
			if c.Prog >= len(progs) {
				emit(&builderObs{Prog: c.Prog, Skip: true})
				return nil
			}
			emit(runBuilder(c.Prog, progs[c.Prog]))
			return nil
		},
	}
}

func runBuilder(i int, p builderProg) (o *builderObs) {
	o = &builderObs{Prog: i, Name: p.name, OK: true}
	defer func() {
		if r := recover(); r != nil {
			o.OK, o.Why = false, "panic: "+ascii(fmt.Sprint(r))
		}
	}()
	v, fresh := p.mk()
	b, err := json.Marshal(v)
	if err != nil {
		return o // an error is an acceptable outcome
	}
	o.Encoded = ascii(trim(string(b), 600))
	dups, derr := dupNames(b)
	if derr != nil {
		o.OK, o.Why = false, "the text is not valid JSON: "+derr.Error()
		return o
	}
	if len(dups) > 0 {
		o.OK, o.Why = false, fmt.Sprintf("member names emitted twice: %v", dups)
		return o
	}
	if len(p.must) > 0 {
		var top map[string]json.RawMessage
		_ = json.Unmarshal(b, &top)
		for _, m := range p.must {
			if _, ok := top[m]; !ok {
				o.OK, o.Why = false, "encoding succeeded but the member "+m+" that the value holds is missing from the text"
				return o
			}
		}
	}
	for k := 0; k < 4; k++ {
		b2, err := json.Marshal(v)
		if err != nil || !bytes.Equal(b, b2) {
			o.OK, o.Why = false, "encoding the same value again gives different bytes"
			return o
		}
	}
	// the text parses to what the model holds: decoding it and encoding again is stable
	t := fresh()
	if err := json.Unmarshal(b, t); err != nil {
		o.OK, o.Why = false, "the package cannot decode its own encoding: "+ascii(err.Error())
		return o
	}
	b3, err := json.Marshal(t)
	if err != nil {
		return o
	}
	x, _ := decodeExact(b)
	y, _ := decodeExact(b3)
	if d := jsonDiff(x, y, ""); d != "" {
		o.OK, o.Why = false, "the text parses to something else than the model holds: "+ascii(d)
	}
	return o
}
