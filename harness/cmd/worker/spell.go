package main

// Family "spell" (C11): every spelling of the root location enumerated by spec/Spell.tla is
// rendered and used as RelativeBase; the loader requests and the output are recorded.

import (
	"encoding/json"
	"errors"
	"flag"
	"fmt"
	"net/url"
	"os"
	"path/filepath"
	"strings"

	"github.com/go-openapi/spec"
)

type spelling struct {
	Form  string   `json:"form"`
	Upper bool     `json:"upper"`
	Segs  []string `json:"segs"`
	Frag  bool     `json:"frag"`
	Query bool     `json:"query"`
	Raw   bool     `json:"raw"`
}

type spellObs struct {
	ID      int      `json:"id"`
	Sp      spelling `json:"sp"`
	Text    string   `json:"text"`
	Outcome string   `json:"outcome"`
	Err     string   `json:"err"`
	Loads   []AURL   `json:"loads"`
	LoadsS  []string `json:"loadss"`
	SameOut bool     `json:"sameout"`
	API     string   `json:"api"`
}

var spellFlags struct {
	site  string
	depth int
}
var spellCounter int
var spellDirs []string

func spellSeg(s string) string {
	switch s {
	case "TMP":
		return strings.TrimPrefix(cwdPrefix, "/")
	case "d1":
		return "d 1" // a directory whose name needs escaping in a URL
	case "root":
		return "root.json"
	case "b1":
		return "b1.json"
	case "c1":
		return "c1.json"
	}
	return s
}

func renderSpelling(sp spelling) string {
	parts := make([]string, len(sp.Segs))
	for i, s := range sp.Segs {
		parts[i] = spellSeg(s)
	}
	p := strings.Join(parts, "/")
	var out string
	switch sp.Form {
	case "url3":
		out = "file://" + escOrRaw("/"+p, sp.Raw)
	case "url1":
		out = "file:" + escOrRaw("/"+p, sp.Raw)
	case "path":
		out = "/" + p
	case "rel":
		out = p
	case "http", "https":
		out = sp.Form + "://h1.example" + escOrRaw("/"+p, sp.Raw)
	}
	if sp.Upper {
		i := strings.Index(out, ":")
		out = strings.ToUpper(out[:i]) + out[i:]
	}
	if sp.Query {
		out += "?x=1"
	}
	if sp.Frag {
		out += "#/definitions/A"
	}
	return out
}

// spellAtoms maps a concrete URL back to the atoms of Spell.tla.
func spellAtoms(u string) AURL {
	a, _ := parseAURL(u)
	pre := strings.Split(strings.TrimPrefix(cwdPrefix, "/"), "/")
	if len(a.Segs) >= len(pre) && strings.Join(a.Segs[:len(pre)], "/") == strings.Join(pre, "/") {
		a.Segs = append([]string{"TMP"}, a.Segs[len(pre):]...)
	}
	for i, s := range a.Segs {
		switch s {
		case "d 1":
			a.Segs[i] = "d1"
		case "root.json":
			a.Segs[i] = "root"
		case "b1.json":
			a.Segs[i] = "b1"
		case "c1.json":
			a.Segs[i] = "c1"
		}
	}
	if a.Host == "h1.example" {
		a.Host = "h1"
	}
	return a
}

// The fixture: three documents; A and D leave the root, Node is a local cycle, E and D lie on cycles
// that come back to the root through another document (by name, and through "..").
const spellRoot = `{"swagger":"2.0","info":{"title":"t","version":"1"},"paths":{},"definitions":{"A":{"$ref":"b1.json#/definitions/B"},"D":{"type":"object","properties":{"c":{"$ref":"sub/c1.json#/definitions/C"}}},"Node":{"type":"object","properties":{"next":{"$ref":"#/definitions/Node"}}},"E":{"type":"object","properties":{"back":{"$ref":"b1.json#/definitions/Back"}}}}}`
const spellB1 = `{"definitions":{"B":{"title":"b"},"Back":{"type":"object","properties":{"r":{"$ref":"root.json#/definitions/E"}}}}}`
const spellC1 = `{"definitions":{"C":{"title":"c","properties":{"up":{"$ref":"../root.json#/definitions/D"}}}}}`
const spellSchema = `{"allOf":[{"$ref":"b1.json#/definitions/B"},{"$ref":"sub/c1.json#/definitions/C"},{"$ref":"#/definitions/Node"},{"$ref":"#/definitions/E"}]}`

func init() {
	families["spell"] = &family{
		flags: func(fs *flag.FlagSet) {
			fs.StringVar(&spellFlags.site, "site", "file", "file | http | https")
			fs.IntVar(&spellFlags.depth, "depth", 1, "directory depth of the root below the working directory")
		},
		init: func() error {
			// two private working directories: the process moves between them from case to case.  The second
			// one has a space in its name and is reached through a symbolic link (locations are lexical: PWD
			// says how the process got there)
			for i := 0; i < 2; i++ {
				base, err := os.MkdirTemp("", "verif-cwd-")
				if err != nil {
					return err
				}
				base, _ = filepath.EvalSymlinks(base)
				dir := base
				if i == 1 {
					real := filepath.Join(base, "real dir")
					if err := os.MkdirAll(real, 0o755); err != nil {
						return err
					}
					dir = filepath.Join(base, "li nk")
					if err := os.Symlink(real, dir); err != nil {
						return err
					}
				}
				if err := os.MkdirAll(filepath.Join(dir, "w", "r", "d 1", "d2"), 0o755); err != nil {
					return err
				}
				for _, sub := range []string{"", "d 1", "d 1/d2"} {
					_ = os.WriteFile(filepath.Join(dir, "w", "r", sub, "root.json"), []byte(spellRoot), 0o644)
				}
				spellDirs = append(spellDirs, dir)
			}
			cwdPrefix = spellDirs[0]
			return spellChdir()
		},
		crashed: func(line []byte, outcome, detail string) interface{} {
			var sp spelling
			_ = json.Unmarshal(line, &sp)
			return &spellObs{Sp: sp, Text: "(the process died on this spelling)", Outcome: outcome, Err: ascii(tail(detail, 400)), API: "any",
				Loads: []AURL{}, LoadsS: []string{}}
		},
		run: func(line []byte, emit func(interface{})) error {
			var sp spelling
			if err := json.Unmarshal(line, &sp); err != nil {
				return err
			}
			spellCounter++
			cwdPrefix = spellDirs[spellCounter%2]
			if err := spellChdir(); err != nil {
				return err
			}
			for _, api := range []string{"ExpandSpec", "ExpandSchemaWithBasePath", "ExpandParameter", "ExpandResponse", "ExpandSchemaWithBasePath:id"} {
				emit(runSpell(spellCounter, api, sp))
			}
			return nil
		},
	}
}

func escOrRaw(p string, raw bool) string {
	if raw {
		return p
	}
	return (&url.URL{Path: p}).EscapedPath()
}

func spellChdir() error {
	d := filepath.Join(cwdPrefix, "w", "r")
	if err := os.Chdir(d); err != nil {
		return err
	}
	return os.Setenv("PWD", d)
}

func canonicalRoot() string {
	below := []string{"", "d 1/", "d 1/d2/"}[spellFlags.depth]
	if spellFlags.site == "file" {
		return (&url.URL{Scheme: "file", Path: cwdPrefix + "/w/r/" + below + "root.json"}).String()
	}
	return (&url.URL{Scheme: spellFlags.site, Host: "h1.example", Path: "/x/" + below + "root.json"}).String()
}

func spellExpand(api, base string, docs map[string]string) (out string, loads []string, err error) {
	loader := func(u string) (json.RawMessage, error) {
		loads = append(loads, u)
		d, ok := docs[u]
		if !ok {
			return nil, errors.New("loader: no doc " + u)
		}
		return json.RawMessage(d), nil
	}
	opts := &spec.ExpandOptions{RelativeBase: base, PathLoader: loader}
	switch api {
	case "ExpandSpec":
		var sw spec.Swagger
		if e := json.Unmarshal([]byte(spellRoot), &sw); e != nil {
			return "", nil, e
		}
		if e := spec.ExpandSpec(&sw, opts); e != nil {
			return "", loads, e
		}
		b, _ := json.Marshal(&sw)
		return string(b), loads, nil
	case "ExpandParameter", "ExpandResponse":
		// these take the location alone and fetch through the package-level loader
		old := spec.PathLoader
		spec.PathLoader = loader
		defer func() { spec.PathLoader = old }()
		if api == "ExpandParameter" {
			var pr spec.Parameter
			_ = json.Unmarshal([]byte(`{"name":"b","in":"body","schema":`+spellSchema+`}`), &pr)
			if e := spec.ExpandParameter(&pr, base); e != nil {
				return "", loads, e
			}
			b, _ := json.Marshal(&pr)
			return string(b), loads, nil
		}
		var rs spec.Response
		_ = json.Unmarshal([]byte(`{"description":"d","schema":`+spellSchema+`}`), &rs)
		if e := spec.ExpandResponse(&rs, base); e != nil {
			return "", loads, e
		}
		b, _ := json.Marshal(&rs)
		return string(b), loads, nil
	case "ExpandSchemaWithBasePath:id":
		// a root schema that declares an absolute id and holds a local cycle: nothing is fetched, the
		// cut-point is written relative to the root whatever the spelling of its location
		var s spec.Schema
		_ = json.Unmarshal([]byte(`{"id":"http://ids.example/schemas/root.json","type":"object","properties":{"head":{"$ref":"#/definitions/node"}},`+
			`"definitions":{"node":{"type":"object","properties":{"next":{"$ref":"#/definitions/node"}}}}}`), &s)
		if e := spec.ExpandSchemaWithBasePath(&s, spec.VerifNewCache(), opts); e != nil {
			return "", loads, e
		}
		b, _ := json.Marshal(&s)
		return string(b), loads, nil
	default:
		var s spec.Schema
		_ = json.Unmarshal([]byte(spellSchema), &s)
		if e := spec.ExpandSchemaWithBasePath(&s, nil, opts); e != nil {
			return "", loads, e
		}
		b, _ := json.Marshal(&s)
		return string(b), loads, nil
	}
}

func runSpell(id int, api string, sp spelling) (o *spellObs) {
	o = &spellObs{ID: id, Sp: sp, API: api, Loads: []AURL{}, LoadsS: []string{}}
	defer func() {
		if r := recover(); r != nil {
			o.Outcome, o.Err = "panic", ascii(fmt.Sprint(r))
		}
	}()
	canon := canonicalRoot()
	dir := canon[:strings.LastIndex(canon, "/")+1]
	docs := map[string]string{
		canon:               spellRoot,
		dir + "b1.json":     spellB1,
		dir + "sub/c1.json": spellC1,
	}
	want, _, err := spellExpand(api, canon, docs)
	if err != nil {
		o.Outcome, o.Err = "harness-error", "canonical run failed: "+err.Error()
		return o
	}
	o.Text = renderSpelling(sp)
	got, loads, err := spellExpand(api, o.Text, docs)
	for _, u := range loads {
		o.Loads = append(o.Loads, spellAtoms(u))
		o.LoadsS = append(o.LoadsS, ascii(u))
	}
	if err != nil {
		o.Outcome, o.Err = "error", ascii(err.Error())
		return o
	}
	o.Outcome = "ok"
	o.SameOut = got == want
	return o
}
