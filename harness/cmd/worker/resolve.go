package main

// Family "resolve" (C05): for every node of every enumerated graph (and for pointers /
// documents that do not exist) a reference is written from the root and resolved through
// every Resolve* entry point, with the root supplied as typed objects, as generic JSON or
// only through its location.

import (
	"encoding/json"
	"errors"
	"flag"
	"fmt"
	"strconv"
	"strings"

	"github.com/go-openapi/spec"
)

type resObs struct {
	Case     int       `json:"case"`
	Layout   []string  `json:"layout"`
	Rot      int       `json:"rot"`
	Mode     string    `json:"mode"` // typed | generic | location
	API      string    `json:"api"`
	Kind     string    `json:"kind"` // requested kind
	Ref      AURL      `json:"ref"`
	RefS     string    `json:"refs"`
	Target   int       `json:"target"` // abstract node aimed at (0: meant to dangle)
	Outcome  string    `json:"outcome"`
	Err      string    `json:"err"`
	Res      string    `json:"res"` // digest of the result, normalised like PNode.Full
	ResJSON  string    `json:"resjson"`
	RootSame bool      `json:"rootsame"`
	Docs     []docObs  `json:"docs"`
	Nodes    []PNode   `json:"nodes"`
	Abstract []absNode `json:"abstract"`
	Concrete []string  `json:"concrete"`
	DocURLs  []string  `json:"docurls"`
	Names    string    `json:"names"`
	Spell    string    `json:"spell"`
	Site     string    `json:"site"`
	ItemsOK  bool      `json:"itemsok"` // API Items:*: the answer is the designated items object / an error for a dangling pointer
}

var resFlags struct {
	layouts, rots, names, spell, site string
}

func init() {
	families["resolve"] = &family{
		flags: func(fs *flag.FlagSet) {
			fs.StringVar(&resFlags.layouts, "layouts", "sibling", "comma list of layout tuples")
			fs.StringVar(&resFlags.rots, "rots", "0", "comma list of rotations")
			fs.StringVar(&resFlags.names, "names", "special", "name class")
			fs.StringVar(&resFlags.spell, "spell", "varied", "spelling class")
			fs.StringVar(&resFlags.site, "site", "", "site of the root document: empty (local file) or http")
		},
		expand: func(line []byte) ([][]byte, error) {
			var nodes []absNode
			if err := json.Unmarshal(line, &nodes); err != nil {
				var c expCase
				if err2 := json.Unmarshal(line, &c); err2 != nil {
					return nil, err
				}
				return [][]byte{line}, nil
			}
			caseCounter++
			var out [][]byte
			for _, lay := range strings.Split(resFlags.layouts, ",") {
				for _, r := range strings.Split(resFlags.rots, ",") {
					rot, _ := strconv.Atoi(r)
					c := &expCase{Case: caseCounter, Nodes: nodes, Layout: strings.Split(lay, "+"), Rot: rot,
						Entry: "Resolve", Names: resFlags.names, Spell: resFlags.spell, Site: resFlags.site}
					out = append(out, mustJSON(c))
				}
			}
			return out, nil
		},
		run: func(line []byte, emit func(interface{})) error {
			var c expCase
			if err := json.Unmarshal(line, &c); err != nil {
				return err
			}
			for _, o := range runResolveCase(&c) {
				emit(o)
			}
			return nil
		},
		slim: func(v interface{}) interface{} {
			o := v.(*resObs)
			type snode struct {
				Doc   int      `json:"doc"`
				Path  []string `json:"path"`
				Kind  string   `json:"kind"`
				IsRef bool     `json:"isref"`
				Full  string   `json:"full"`
			}
			nodes := make([]snode, len(o.Nodes))
			for i, n := range o.Nodes {
				nodes[i] = snode{n.Doc, n.Path, n.Kind, n.IsRef, n.Full}
			}
			return map[string]interface{}{"case": o.Case, "mode": o.Mode, "api": o.API, "kind": o.Kind, "ref": o.Ref,
				"outcome": o.Outcome, "res": o.Res, "rootsame": o.RootSame, "docs": o.Docs, "nodes": nodes, "target": o.Target, "itemsok": o.ItemsOK}
		},
	}
}

// normFull decodes a JSON value into the model type of the kind and encodes it again.
func normFull(kind string, v interface{}) string {
	b := mustJSON(v)
	var out []byte
	var err error
	switch kind {
	case "s":
		var x spec.Schema
		if err = json.Unmarshal(b, &x); err == nil {
			out, err = json.Marshal(x)
		}
	case "p":
		var x spec.Parameter
		if err = json.Unmarshal(b, &x); err == nil {
			out, err = json.Marshal(x)
		}
	case "r":
		var x spec.Response
		if err = json.Unmarshal(b, &x); err == nil {
			out, err = json.Marshal(x)
		}
	case "i":
		var x spec.PathItem
		if err = json.Unmarshal(b, &x); err == nil {
			out, err = json.Marshal(x)
		}
	}
	if err != nil {
		return "ERR"
	}
	var g interface{}
	_ = json.Unmarshal(out, &g)
	return digest(g)
}

func runResolveCase(c *expCase) []*resObs {
	cc, err := concretise(c)
	if err != nil {
		return []*resObs{{Case: c.Case, Outcome: "harness-error", Err: err.Error()}}
	}
	docBytes := map[string][]byte{}
	var concrete, urls []string
	for d := range cc.docs {
		docBytes[cc.urls[d]] = mustJSON(cc.docs[d])
		concrete = append(concrete, string(docBytes[cc.urls[d]]))
		urls = append(urls, cc.urls[d])
	}
	// projection with full digests
	p := &projector{full: normFull}
	var docs []docObs
	for d := range cc.docs {
		var v interface{}
		_ = json.Unmarshal(docBytes[cc.urls[d]], &v)
		a, _ := parseAURL(cc.urls[d])
		docs = append(docs, docObs{URL: a})
		p.document(d+1, v, false)
	}
	type aim struct {
		target int
		kind   string
		ref    string
	}
	var aims []aim
	for i, a := range c.Nodes {
		aims = append(aims, aim{i + 1, a.Kind, spellRef(cc.urls[0], cc.urls[a.Doc], cc.paths[i+1], c.Rot+i, c.Spell == "varied")})
		if c.Spell == "varied" {
			aims = append(aims, aim{i + 1, a.Kind, spellRef(cc.urls[0], cc.urls[a.Doc], cc.paths[i+1], 0, false)})
		}
	}
	// references that designate nothing: a missing name in every document, a missing document
	for d := range cc.docs {
		kind := []string{"s", "p", "r", "i"}[(c.Rot+d)%4]
		aims = append(aims, aim{0, kind, spellRef(cc.urls[0], cc.urls[d], []string{sectionOf(kind), "No/Such~Name"}, c.Rot, c.Spell == "varied")})
	}
	// pointers that run past an existing node into a member it does not have
	for i, a := range c.Nodes {
		if a.T == "ref" {
			continue
		}
		base := cc.paths[i+1]
		var more [][]string
		var kind string
		switch a.Kind {
		case "s":
			more, kind = [][]string{{"properties", "No/Such"}, {"allOf", "7"}, {"items"}, {"definitions", "missing"}, {"not"}, {"additionalProperties"},
				{"additionalItems"}, {"items", "0"}, {"xml"}, {"externalDocs"}}, "s"
		case "p", "r":
			more, kind = [][]string{{"schema", "properties", "nope"}}, "s"
		case "i":
			vb := verbOf(c, i+1) // the operation that holds this path item's children
			other := "put"
			if vb == "put" {
				other = "get"
			}
			more, kind = [][]string{{vb, "responses", "404"}, {vb, "responses", "default"}, {vb, "responses", "200"}, {other, "responses", "200"}}, "r"
			for k, m := range [][]string{{"parameters", "9"}, {vb, "parameters", "3"}} {
				toks := append(append([]string{}, base...), m...)
				aims = append(aims, aim{0, "p", spellRef(cc.urls[0], cc.urls[a.Doc], toks, c.Rot+i+k, c.Spell == "varied")})
				aims = append(aims, aim{0, "p", spellRef(cc.urls[0], cc.urls[a.Doc], toks, 0, false)})
			}
		}
		for _, m := range more {
			toks := append(append([]string{}, base...), m...)
			// skip a pointer that happens to exist (e.g. the default response of this very path item)
			exists := false
			for k := range c.Nodes {
				if c.Nodes[k].Doc == a.Doc && strings.Join(cc.paths[k+1], "\x00") == strings.Join(toks, "\x00") {
					exists = true
				}
			}
			if !exists {
				// once in the plainest spelling (fragment-only inside the root: the typed root is used), once varied
				aims = append(aims, aim{0, kind, spellRef(cc.urls[0], cc.urls[a.Doc], toks, 0, false)})
				aims = append(aims, aim{0, kind, spellRef(cc.urls[0], cc.urls[a.Doc], toks, c.Rot+i+len(toks), c.Spell == "varied")})
			}
		}
	}
	aims = append(aims, aim{0, "s", "nowhere/missing.json#/definitions/X"})
	// a pointer that runs through a scalar
	aims = append(aims, aim{0, "s", "#/info/title/deeper"})

	var out []*resObs
	// a root supplied only through a location at which there is no document: whatever the reference, even one
	// to the document itself, there is nothing to designate
	for _, ref := range []string{"#", "", "#/definitions/X", "deadroot.json", "deadroot.json#/definitions/X"} {
		for k, kind := range []string{"s", "p", "r", "i"} {
			if (k+c.Rot+len(ref))%2 == 0 {
				o := &resObs{Case: c.Case, Layout: c.Layout, Rot: c.Rot, Mode: "location", API: "WithBase:deadroot", Kind: kind, RefS: ascii(ref),
					Target: 0, Docs: docs, Nodes: p.nodes, Abstract: c.Nodes, Concrete: concrete, DocURLs: urls,
					Names: c.Names, Spell: c.Spell, Site: c.Site, RootSame: true, ItemsOK: true}
				o.Ref, _ = parseAURL(ref)
				dead := cc.urls[0][:strings.LastIndex(cc.urls[0], "/")+1] + "deadroot.json"
				callResolve(o, ref, dead, docBytes)
				out = append(out, o)
			}
		}
	}
	// items objects (the simple schemas of non-body parameters and headers) kept in a document of their own next to
	// the root: through ResolveItemsWithBase and the older ResolveItems, which takes the same options
	itemsURL := cc.urls[0][:strings.LastIndex(cc.urls[0], "/")+1] + "itemsdoc.json"
	docBytes[itemsURL] = []byte(`{"shared":{"id":{"type":"integer","format":"int64"},"tags":{"type":"array","items":{"type":"string"}}}}`)
	for _, it := range []struct{ ptr, want string }{{"/shared/id", `{"type":"integer","format":"int64"}`},
		{"/shared/tags", `{"type":"array","items":{"type":"string"}}`}, {"/shared/none", ""}} {
		for _, mode := range []string{"typed", "generic", "location"} {
			for _, api := range []string{"Items:ResolveItemsWithBase", "Items:ResolveItems"} {
				o := &resObs{Case: c.Case, Layout: c.Layout, Rot: c.Rot, Mode: mode, API: api, Kind: "it", RefS: "itemsdoc.json#" + it.ptr,
					Target: 0, Docs: docs, Nodes: p.nodes, Abstract: c.Nodes, Concrete: concrete, DocURLs: urls,
					Names: c.Names, Spell: c.Spell, Site: c.Site, RootSame: true}
				o.Ref, _ = parseAURL(o.RefS)
				callResolveItems(o, cc.urls[0], docBytes, it.want)
				out = append(out, o)
			}
		}
	}
	delete(docBytes, itemsURL)
	for _, am := range aims {
		for _, mode := range []string{"typed", "generic", "location"} {
			apis := []string{"WithBase"}
			if am.target == 0 || (len(out)+c.Rot)%3 == 0 {
				// the same call with ContinueOnError set in the options (an expansion option: resolution is unaffected)
				apis = append(apis, "WithBase:cont")
			}
			if am.kind == "s" && mode != "location" && strings.HasPrefix(am.ref, "#") {
				apis = append(apis, "ResolveRef")
			}
			if mode != "location" && strings.HasPrefix(am.ref, "#") {
				// no options at all: everything needed is in the root that is passed
				apis = append(apis, "WithBase:nilopts")
			}
			for _, api := range apis {
				o := &resObs{Case: c.Case, Layout: c.Layout, Rot: c.Rot, Mode: mode, API: api, Kind: am.kind, RefS: ascii(am.ref),
					Target: am.target, Docs: docs, Nodes: p.nodes, Abstract: c.Nodes, Concrete: concrete, DocURLs: urls,
					Names: c.Names, Spell: c.Spell, Site: c.Site, RootSame: true, ItemsOK: true}
				o.Ref, _ = parseAURL(am.ref)
				callResolve(o, am.ref, cc.urls[0], docBytes)
				out = append(out, o)
			}
		}
	}
	return out
}

func callResolve(o *resObs, refS, rootURL string, docBytes map[string][]byte) {
	defer func() {
		if r := recover(); r != nil {
			o.Outcome, o.Err = "panic", ascii(fmt.Sprint(r))
		}
	}()
	ld := &recLoader{docs: docBytes, refuse: map[string]bool{}}
	opts := &spec.ExpandOptions{RelativeBase: rootURL, PathLoader: ld.load, ContinueOnError: o.API == "WithBase:cont"}
	if o.API == "WithBase:deadroot" && (o.Case+len(refS))%2 == 0 {
		// the loader fails outright rather than reporting a missing document
		opts.PathLoader = func(string) (json.RawMessage, error) { return nil, errors.New("loader: network unreachable") }
	}
	var root interface{}
	switch o.Mode {
	case "typed":
		var sw spec.Swagger
		if err := json.Unmarshal(docBytes[rootURL], &sw); err != nil {
			o.Outcome, o.Err = "harness-error", err.Error()
			return
		}
		root = &sw
	case "generic":
		var g map[string]interface{}
		_ = json.Unmarshal(docBytes[rootURL], &g)
		root = g
	}
	var before []byte
	if root != nil {
		before, _ = json.Marshal(root)
	}
	ref, err := spec.NewRef(refS)
	if err != nil {
		o.Outcome, o.Err = "error", ascii("NewRef: "+err.Error())
		return
	}
	if o.API == "WithBase:nilopts" {
		opts = nil
	}
	var res interface{}
	isNil := false
	switch {
	case o.API == "ResolveRef":
		r, e := spec.ResolveRef(root, &ref)
		res, err, isNil = r, e, r == nil
	case o.Kind == "s":
		r, e := spec.ResolveRefWithBase(root, &ref, opts)
		res, err, isNil = r, e, r == nil
	case o.Kind == "p":
		r, e := spec.ResolveParameterWithBase(root, ref, opts)
		res, err, isNil = r, e, r == nil
	case o.Kind == "r":
		r, e := spec.ResolveResponseWithBase(root, ref, opts)
		res, err, isNil = r, e, r == nil
	case o.Kind == "i":
		r, e := spec.ResolvePathItemWithBase(root, ref, opts)
		res, err, isNil = r, e, r == nil
	}
	if root != nil {
		after, _ := json.Marshal(root)
		o.RootSame = string(before) == string(after)
	}
	if err != nil {
		o.Outcome, o.Err = "error", ascii(err.Error())
		return
	}
	if isNil {
		o.Outcome = "nil" // a nil result with a nil error
		return
	}
	b, merr := json.Marshal(res)
	if merr != nil {
		o.Outcome, o.Err = "error", ascii("marshal: "+merr.Error())
		return
	}
	var g interface{}
	_ = json.Unmarshal(b, &g)
	o.Outcome = "ok"
	o.Res = digest(g)
	o.ResJSON = ascii(string(b))
	// the answer of the ...WithBase functions is the caller's: scribbling on it leaves the root alone
	if root != nil && o.API != "ResolveRef" {
		switch r := res.(type) {
		case *spec.Schema:
			r.Title, r.Items, r.Properties, r.AllOf, r.Not = "scribbled", nil, nil, nil, nil
			r.AdditionalProperties, r.Definitions = nil, nil
		case *spec.Parameter:
			r.Name, r.Schema = "scribbled", nil
		case *spec.Response:
			r.Description, r.Schema = "scribbled", nil
		case *spec.PathItem:
			r.Get, r.Parameters = nil, nil
		}
		after, _ := json.Marshal(root)
		if string(before) != string(after) {
			o.RootSame = false
		}
	}
}

func callResolveItems(o *resObs, rootURL string, docBytes map[string][]byte, want string) {
	defer func() {
		if r := recover(); r != nil {
			o.Outcome, o.Err = "panic", ascii(fmt.Sprint(r))
		}
	}()
	ld := &recLoader{docs: docBytes, refuse: map[string]bool{}}
	opts := &spec.ExpandOptions{RelativeBase: rootURL, PathLoader: ld.load}
	var root interface{}
	switch o.Mode {
	case "typed":
		var sw spec.Swagger
		_ = json.Unmarshal(docBytes[rootURL], &sw)
		root = &sw
	case "generic":
		var g map[string]interface{}
		_ = json.Unmarshal(docBytes[rootURL], &g)
		root = g
	}
	ref := spec.MustCreateRef(o.RefS)
	var res *spec.Items
	var err error
	if o.API == "Items:ResolveItems" {
		res, err = spec.ResolveItems(root, ref, opts) //nolint:staticcheck // the deprecated entry point is part of the API
	} else {
		res, err = spec.ResolveItemsWithBase(root, ref, opts)
	}
	if err != nil {
		o.Outcome, o.Err = "error", ascii(err.Error())
		o.ItemsOK = want == ""
		return
	}
	b, _ := json.Marshal(res)
	o.Outcome, o.ResJSON = "ok", ascii(string(b))
	o.ItemsOK = want != "" && jsonEq(b, []byte(want))
}
