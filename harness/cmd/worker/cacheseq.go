package main

// Family "cacheseq" (C18): sequences of expansions enumerated by spec/CacheSeq.tla are run through
// no cache, a fresh cache per call, and ONE caller-supplied cache reused over the sequence; every
// step records its answer, the answer of the same call made alone without a cache, and the loader
// traffic.

import (
	"encoding/json"
	"errors"
	"fmt"

	"github.com/go-openapi/spec"
)

type cseqStep struct {
	Name      string   `json:"name"`
	Out       string   `json:"out"`
	Solo      string   `json:"solo"`
	Loads     []string `json:"loads"`
	Delivered []string `json:"delivered"`
}

type cseqObs struct {
	ID    int        `json:"id"`
	Seq   []string   `json:"seq"`
	API   string     `json:"api"`
	Mode  string     `json:"mode"`
	Steps []cseqStep `json:"steps"`
}

const cseqBase = "file:///w/r/root.json"

const cseqI1 = `{"id":"http://Schemas.EXAMPLE.com:80/tree/node.json","type":"object","properties":{"value":{"type":"string"},"next":{"$ref":"node.json"}}}`
const cseqI2 = `{"id":"https://schemas.example.com:443/tree/node.json","type":"object","properties":{"up":{"$ref":"../tree/node.json"}}}`

var cseqDocs = map[string]string{
	// the documents behind the ids of I1 / I2, at their canonical locations
	"http://schemas.example.com/tree/node.json":  cseqI1,
	"https://schemas.example.com/tree/node.json": cseqI2,
	"file:///w/r/root.json":    `{"definitions":{"T":{"title":"root-T"}}}`,
	"file:///w/r/d1.json":      `{"definitions":{"T":{"title":"d1-T","properties":{"u":{"$ref":"d2.json#/definitions/U"}}}}}`,
	"file:///w/r/d2.json":      `{"definitions":{"U":{"title":"d2-U"}}}`,
	"file:///w/r/nulldoc.json": `null`,
	// a document holding a schema with an anchor-style id
	"file:///w/r/d3.json": `{"definitions":{"W":{"id":"#w","type":"string"},"V":{"type":"integer"}}}`,
	// a document that does not decode into the generic form the loader promises (a number out of range)
	"file:///w/r/bad.json": `{"definitions":{"T":{"type":"integer","maximum":1e400}}}`,
}

// the pool of calls
var cseqPool = map[string]string{
	// two schemas carrying the same id, with different content below it
	"A1": `{"id":"http://ids.example/same.json","definitions":{"T":{"type":"integer"}},"properties":{"p":{"$ref":"#/definitions/T"}}}`,
	"A2": `{"id":"http://ids.example/same.json","definitions":{"T":{"type":"string"}},"properties":{"p":{"$ref":"#/definitions/T"}}}`,
	// references into other documents (one of them two documents deep)
	"B":  `{"type":"object","properties":{"b":{"$ref":"d1.json#/definitions/T"}}}`,
	"B2": `{"allOf":[{"$ref":"d2.json#/definitions/U"},{"$ref":"d1.json#/definitions/T"}]}`,
	// schemas that are their own root, same pointer, different content
	"C1": `{"definitions":{"T":{"type":"integer"}},"properties":{"p":{"$ref":"#/definitions/T"}}}`,
	"C2": `{"definitions":{"T":{"type":"boolean"}},"properties":{"p":{"$ref":"#/definitions/T"}}}`,
	// a document whose whole content is null, referenced twice
	"N": `{"allOf":[{"$ref":"nulldoc.json"},{"$ref":"nulldoc.json"},{"$ref":"d2.json#/definitions/U"}]}`,
	// into a document with an anchor-style id, then elsewhere into the same document
	"W": `{"$ref":"d3.json#/definitions/W"}`,
	"V": `{"$ref":"d3.json#/definitions/V"}`,
	// a document that fails to decode
	"X": `{"$ref":"bad.json#/definitions/T"}`,
	// a document the loader refuses (whole-document reference, and a pointer into it)
	"R":  `{"$ref":"refused.json"}`,
	"R2": `{"properties":{"r":{"$ref":"refused.json#/definitions/T"}}}`,
	// a schema that refers to itself through its own absolute id, the authority of which is not in canonical form
	"I1": cseqI1,
	"I2": cseqI2,
	// nothing to resolve
	"E": `{"type":"string"}`,
}

func init() {
	families["cacheseq"] = &family{
		crashed: func(line []byte, outcome, detail string) interface{} {
			var c struct {
				Seq []string `json:"seq"`
				API string   `json:"api"`
			}
			_ = json.Unmarshal(line, &c)
			o := &cseqObs{Seq: c.Seq, API: c.API, Mode: "crashed", Steps: []cseqStep{}}
			for _, n := range c.Seq {
				o.Steps = append(o.Steps, cseqStep{Name: n, Out: "the process died or hung (" + outcome + "): " + ascii(tail(detail, 300)), Solo: "?",
					Loads: []string{}, Delivered: []string{}})
			}
			return o
		},
		run: func(line []byte, emit func(interface{})) error {
			var c struct {
				Seq []string `json:"seq"`
				API string   `json:"api"`
			}
			if err := json.Unmarshal(line, &c); err != nil {
				return err
			}
			for _, mode := range []string{"none", "fresh", "reuse"} {
				caseCounter++
				emit(runCacheSeq(caseCounter, c.Seq, c.API, mode))
			}
			return nil
		},
	}
}

func cseqCall(name, api string, cache spec.ResolutionCache) (out string, loads, delivered []string) {
	defer func() {
		if r := recover(); r != nil {
			out = "panic: " + ascii(fmt.Sprint(r))
		}
	}()
	loader := func(u string) (json.RawMessage, error) {
		loads = append(loads, ascii(u))
		d, ok := cseqDocs[u]
		if !ok {
			return nil, errors.New("no document " + u)
		}
		// (a text that does not decode is no document: nothing can be kept of it)
		var probe interface{}
		if json.Unmarshal([]byte(d), &probe) == nil {
			delivered = append(delivered, ascii(u))
		}
		return json.RawMessage(d), nil
	}
	var s spec.Schema
	if err := json.Unmarshal([]byte(cseqPool[name]), &s); err != nil {
		return "harness: " + err.Error(), nil, nil
	}
	var err error
	if api == "ExpandSchema" {
		old := spec.PathLoader
		spec.PathLoader = loader
		err = spec.ExpandSchema(&s, nil, cache)
		spec.PathLoader = old
	} else {
		err = spec.ExpandSchemaWithBasePath(&s, cache, &spec.ExpandOptions{RelativeBase: cseqBase, PathLoader: loader})
	}
	if err != nil {
		return "error", loads, delivered
	}
	b, _ := json.Marshal(&s)
	return ascii(string(b)), loads, delivered
}

func runCacheSeq(id int, seq []string, api, mode string) *cseqObs {
	o := &cseqObs{ID: id, Seq: seq, API: api, Mode: mode, Steps: []cseqStep{}}
	var shared spec.ResolutionCache
	if mode == "reuse" {
		shared = &mapCache{m: map[string]interface{}{}}
	}
	for _, name := range seq {
		var cache spec.ResolutionCache
		switch mode {
		case "fresh":
			cache = &mapCache{m: map[string]interface{}{}}
		case "reuse":
			cache = shared
		}
		st := cseqStep{Name: name, Loads: []string{}, Delivered: []string{}}
		st.Solo, _, _ = cseqCall(name, api, nil)
		var l, d []string
		st.Out, l, d = cseqCall(name, api, cache)
		if l != nil {
			st.Loads = l
		}
		if d != nil {
			st.Delivered = d
		}
		o.Steps = append(o.Steps, st)
	}
	return o
}
