package main

// Family "refvalue" (C13): reference strings described by syntax classes (spec/RefValue.tla)
// are rendered, parsed by the real package and driven through String / JSON / gob conversions;
// after every step text, classification flags and JSON form are compared with the canonical
// value and flags TLC exported.

import (
	"bytes"
	"encoding/gob"
	"encoding/json"
	"flag"
	"fmt"
	"os"
	"strings"

	"github.com/go-openapi/spec"
)

type absRef struct {
	Scheme string   `json:"scheme"`
	Up     bool     `json:"up"`
	Host   string   `json:"host"`
	Port   string   `json:"port"`
	Abs    bool     `json:"abs"`
	Segs   []string `json:"segs"`
	Frag   string   `json:"frag"`
}

type refFlags struct {
	Full     bool `json:"full"`
	PathOnly bool `json:"pathonly"`
	FragOnly bool `json:"fragonly"`
	File     bool `json:"file"`
	FullPath bool `json:"fullpath"`
	Root     bool `json:"root"`
}

type refCase struct {
	R     absRef   `json:"r"`
	Canon absRef   `json:"canon"`
	Flags refFlags `json:"flags"`
	Empty bool     `json:"empty"`
}

type refStep struct {
	Op    string   `json:"op"`
	Text  string   `json:"text"`
	Flags refFlags `json:"flags"`
	JSON  string   `json:"json"`
	OK    bool     `json:"ok"`
	Why   string   `json:"why"`
}

type refObs struct {
	ID    int       `json:"id"`
	Case  refCase   `json:"case"`
	Prog  []string  `json:"prog"`
	Orig  string    `json:"orig"`
	Want  string    `json:"want"`
	Steps []refStep `json:"steps"`
	OK    bool      `json:"ok"`
	Err   string    `json:"err"`
}

var refFlagsV struct{ progs string }
var refProgs [][]string
var refCounter int

func renderRef(a absRef, canonical bool) string {
	var b strings.Builder
	sc, host := a.Scheme, ""
	if a.Host != "" {
		host = "h.example"
	}
	if a.Up {
		sc, host = strings.ToUpper(sc), strings.ToUpper(host)
	}
	if sc != "" {
		b.WriteString(sc + "://" + host)
		switch a.Port {
		case "default":
			if strings.EqualFold(sc, "https") {
				b.WriteString(":443")
			} else {
				b.WriteString(":80")
			}
		case "other":
			b.WriteString(":8080")
		}
	}
	if a.Abs {
		b.WriteString("/")
	}
	for i, s := range a.Segs {
		if i > 0 {
			b.WriteString("/")
		}
		switch s {
		case "a":
			b.WriteString("a")
		case "bj":
			b.WriteString("b.json")
		case "esc":
			b.WriteString("e%20s")
		case "spc":
			if canonical {
				b.WriteString("s%20p")
			} else {
				b.WriteString("s p")
			}
		case "uni":
			if canonical {
				b.WriteString("u%C3%A9")
			} else {
				b.WriteString("ué")
			}
		case "dot":
			b.WriteString(".")
		case "dd":
			b.WriteString("..")
		case "dup":
			// an empty segment: the separators around it form a doubled slash
		}
	}
	switch a.Frag {
	case "empty":
		b.WriteString("#")
	case "ptr":
		b.WriteString("#/definitions/a")
	case "esc":
		b.WriteString("#/a~1b~0c")
	case "pct":
		b.WriteString("#/a%25b")
	case "anchor":
		b.WriteString("#anchor")
	}
	return b.String()
}

func flagsOf(r *spec.Ref) refFlags {
	return refFlags{Full: r.HasFullURL, PathOnly: r.HasURLPathOnly, FragOnly: r.HasFragmentOnly, File: r.HasFileScheme,
		FullPath: r.HasFullFilePath, Root: r.IsRoot()}
}

func init() {
	families["refvalue"] = &family{
		flags: func(fs *flag.FlagSet) { fs.StringVar(&refFlagsV.progs, "progs", "", "programs file") },
		init: func() error {
			b, err := os.ReadFile(refFlagsV.progs)
			if err != nil {
				return err
			}
			for _, l := range strings.Split(string(b), "\n") {
				if strings.TrimSpace(l) == "" {
					continue
				}
				var p struct {
					Prog []string `json:"prog"`
				}
				if err := json.Unmarshal([]byte(l), &p); err != nil {
					return err
				}
				refProgs = append(refProgs, p.Prog)
			}
			return nil
		},
		run: func(line []byte, emit func(interface{})) error {
			var c refCase
			if err := json.Unmarshal(line, &c); err != nil {
				return err
			}
			for _, p := range refProgs {
				refCounter++
				emit(runRefCase(refCounter, c, p))
			}
			return nil
		},
	}
}

func runRefCase(id int, c refCase, prog []string) (o *refObs) {
	o = &refObs{ID: id, Case: c, Prog: prog, Steps: []refStep{}, OK: true}
	defer func() {
		if r := recover(); r != nil {
			o.OK, o.Err = false, ascii(fmt.Sprint(r))
		}
	}()
	o.Orig, o.Want = renderRef(c.R, false), renderRef(c.Canon, true)
	ref, err := spec.NewRef(o.Orig)
	if err != nil {
		o.OK, o.Err = false, ascii("NewRef: "+err.Error())
		return o
	}
	check := func(op string, r *spec.Ref) {
		st := refStep{Op: op, Text: r.String(), Flags: flagsOf(r), OK: true}
		jb, jerr := json.Marshal(r)
		st.JSON = string(jb)
		switch {
		case jerr != nil:
			st.OK, st.Why = false, "MarshalJSON: "+jerr.Error()
		case st.Text != o.Want:
			st.OK, st.Why = false, "text is not the canonical text"
		case st.Flags != c.Flags:
			st.OK, st.Why = false, fmt.Sprintf("flags %+v, the canonical text has %+v", st.Flags, c.Flags)
		default:
			var m map[string]interface{}
			if e := json.Unmarshal(jb, &m); e != nil {
				st.OK, st.Why = false, "JSON form does not parse"
			} else if st.Text == "" {
				// the root reference: {} or {"$ref":""} (DESIGN section 5)
				if !(len(m) == 0 || (len(m) == 1 && m["$ref"] == "")) {
					st.OK, st.Why = false, "JSON form of a root reference"
				}
			} else if !(len(m) == 1 && m["$ref"] == st.Text) {
				st.OK, st.Why = false, "JSON form is not a single $ref member holding the text"
			}
		}
		st.Text, st.JSON = ascii(st.Text), ascii(st.JSON)
		// every conversion preserves the value: its JSON form never changes along the program
		if st.OK && len(o.Steps) > 0 && o.Steps[0].Op == "parse" && o.Steps[0].JSON != st.JSON {
			st.OK, st.Why = false, "the JSON form changed along the conversions (was "+o.Steps[0].JSON+")"
		}
		if !st.OK {
			o.OK = false
		}
		o.Steps = append(o.Steps, st)
	}
	check("parse", &ref)
	if id == 1 {
		// the empty reference (zero value) encodes as an empty object and survives gob
		var z spec.Ref
		st := refStep{Op: "zero", OK: true}
		jb, _ := json.Marshal(z)
		var buf bytes.Buffer
		var z2 spec.Ref
		e1 := gob.NewEncoder(&buf).Encode(z)
		e2 := gob.NewDecoder(&buf).Decode(&z2)
		jb2, _ := json.Marshal(z2)
		st.JSON = string(jb) + " " + string(jb2)
		if string(jb) != "{}" || e1 != nil || e2 != nil || string(jb2) != "{}" {
			st.OK, st.Why = false, "the empty reference does not encode as {}"
			o.OK = false
		}
		o.Steps = append(o.Steps, st)
	}
	for _, op := range prog {
		// between two conversions the value is only LOOKED at: every read-only accessor is called, and a copy of
		// it is handed to an expansion; neither may change what the value prints, classifies or encodes as
		held := ref
		_ = held.IsValidURI()
		_ = held.IsRoot()
		_ = held.IsCanonical()
		_ = held.RemoteURI()
		_ = held.GetURL()
		_ = held.GetPointer()
		if child, err := spec.NewRef("other.json#/definitions/o"); err == nil {
			_, _ = held.Inherits(child)
		}
		refUse(held)
		check("look", &ref)
		switch op {
		case "reparse":
			r2, err := spec.NewRef(ref.String())
			if err != nil {
				o.OK, o.Err = false, ascii("re-parse: "+err.Error())
				return o
			}
			ref = r2
		case "json":
			b, err := json.Marshal(ref)
			if err != nil {
				o.OK, o.Err = false, ascii("marshal: "+err.Error())
				return o
			}
			var r2 spec.Ref
			if err := json.Unmarshal(b, &r2); err != nil {
				o.OK, o.Err = false, ascii("unmarshal: "+err.Error())
				return o
			}
			ref = r2
		case "gob":
			var buf bytes.Buffer
			if err := gob.NewEncoder(&buf).Encode(ref); err != nil {
				o.OK, o.Err = false, ascii("gob encode: "+err.Error())
				return o
			}
			var r2 spec.Ref
			if err := gob.NewDecoder(&buf).Decode(&r2); err != nil {
				o.OK, o.Err = false, ascii("gob decode: "+err.Error())
				return o
			}
			ref = r2
			// several values in gob form at once: an encoding that is kept while another reference is
			// encoded still decodes to the reference it was made from
			b1, e1 := ref.GobEncode()
			other := spec.MustCreateRef("http://other.example/o.json#/definitions/other")
			b2, e2 := other.GobEncode()
			var r3, r4 spec.Ref
			if e1 != nil || e2 != nil || r3.GobDecode(b1) != nil || r4.GobDecode(b2) != nil {
				o.OK, o.Err = false, "direct GobEncode / GobDecode failed"
				return o
			}
			if r3.String() != ref.String() || flagsOf(&r3) != flagsOf(&ref) || r4.String() != other.String() {
				o.OK, o.Err = false, ascii(fmt.Sprintf("a gob encoding kept while another reference was encoded decodes to %q, made from %q", r3.String(), ref.String()))
				return o
			}
		}
		check(op, &ref)
	}
	o.Orig, o.Want = ascii(o.Orig), ascii(o.Want)
	return o
}

// refUse hands a copy of the reference to an expansion (the loader answers every request).
func refUse(r spec.Ref) {
	defer func() { _ = recover() }()
	doc := json.RawMessage(`{"definitions":{"a":{"title":"x"}},"a/b~c":{"title":"y"},"a%b":{"title":"z"},"title":"doc"}`)
	s := spec.Schema{SchemaProps: spec.SchemaProps{Ref: r}}
	_ = spec.ExpandSchemaWithBasePath(&s, nil, &spec.ExpandOptions{RelativeBase: "file:///w/r/root.json",
		PathLoader: func(string) (json.RawMessage, error) { return doc, nil }})
	p := spec.Parameter{Refable: spec.Refable{Ref: r}}
	_, _ = spec.ResolveParameterWithBase(nil, p.Ref, &spec.ExpandOptions{RelativeBase: "file:///w/r/root.json",
		PathLoader: func(string) (json.RawMessage, error) { return doc, nil }})
}
