----------------------------- MODULE ExpTrace -----------------------------
(***************************************************************************)
(* Validation of the internal event trace of one real expansion call       *)
(* (hooks under build tag verif) against the actions of Expander.tla.      *)
(* Every event carries its arguments (canonical ref, parentRefs, URL,      *)
(* cache verdict), so validation is a deterministic fold: each event must  *)
(* be explained by the model action of the same name in the tracked state. *)
(*                                                                         *)
(*   circ(ref, found, parents)  Cut / Follow / DerefHop guard:             *)
(*                              found = IsCirc(memo, parents, ref),        *)
(*                              memo' = MemoAfter(memo, parents, ref)      *)
(*   load(url, hit)             LoadDoc guard: a miss only for a document  *)
(*                              that was not stored before                 *)
(*   fetch(url)                 loader call: only right after a miss on it *)
(*   stored(url) / setid(_,u)   cache' = cache \cup {url}                  *)
(*   follow(ref) / cut(ref)     only after circ(ref, FALSE) / (ref, TRUE)  *)
(*   resolve, hop               stuttering steps                           *)
(*   call                       boundary between successive library calls  *)
(***************************************************************************)
EXTENDS CycleCut

St0 == [memo |-> {}, cache |-> {}, pending |-> "", lastRef |-> "", lastFound |-> FALSE,
        ok |-> TRUE, at |-> 0, why |-> "", ncirc |-> 0, refetch |-> FALSE]

Bad(st, i, why) == [st EXCEPT !.ok = FALSE, !.at = i, !.why = why]

Step(st, e, i) ==
  LET ev == e[1] IN
  IF ev = "circ" THEN
       LET ref == e[2]  found == (e[3] = "1")  ps == SubSeq(e, 4, Len(e))
           st2 == [st EXCEPT !.memo = MemoAfter(st.memo, ps, ref), !.lastRef = ref,
                             !.lastFound = found, !.ncirc = @ + 1]
       IN IF found = IsCirc(st.memo, ps, ref) THEN st2
          ELSE Bad(st2, i, IF found THEN "circ: reported circular, neither memoised nor on the path"
                                    ELSE "circ: on the path or memoised, reported not circular")
  ELSE IF ev = "call" THEN   \* a new library call: fresh memo and per-call cache
       [st EXCEPT !.memo = {}, !.cache = {}, !.pending = "", !.lastRef = ""]
  ELSE IF ev = "load" THEN
       LET url == e[2]  hit == (e[3] = "1") IN
       IF ~hit /\ url \in st.cache
       THEN Bad([st EXCEPT !.pending = url, !.refetch = TRUE], i, "load: miss on a document stored earlier in this call")
       ELSE [st EXCEPT !.pending = IF hit THEN "" ELSE url]
  ELSE IF ev = "fetch" THEN
       IF st.pending = e[2] THEN st
       ELSE Bad([st EXCEPT !.refetch = TRUE], i, "fetch: loader called without a preceding cache miss on that URL")
  ELSE IF ev = "stored" THEN [st EXCEPT !.cache = @ \cup {e[2]}, !.pending = ""]
  ELSE IF ev = "setid"  THEN [st EXCEPT !.cache = @ \cup {e[3]}]
  ELSE IF ev = "follow" THEN
       IF st.lastRef = e[2] /\ ~st.lastFound THEN st
       ELSE Bad(st, i, "follow: not preceded by a negative cycle test of the same reference")
  ELSE IF ev = "cut" THEN
       IF st.lastRef = e[2] /\ st.lastFound THEN st
       ELSE Bad(st, i, "cut: not preceded by a positive cycle test of the same reference")
  ELSE st

RECURSIVE Fold(_, _, _)
Fold(st, evs, i) ==
  IF i > Len(evs) THEN st
  ELSE LET st2 == Step(st, evs[i], i)
       IN  IF st.ok /\ ~st2.ok THEN Fold(st2, evs, i + 1)      \* keep the first deviation, go on counting
           ELSE Fold([st2 EXCEPT !.ok = st.ok /\ st2.ok,
                                 !.at = IF st.ok THEN st2.at ELSE st.at,
                                 !.why = IF st.ok THEN st2.why ELSE st.why], evs, i + 1)

Validate(evs) == Fold(St0, evs, 1)
=============================================================================
