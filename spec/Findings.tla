----------------------------- MODULE Findings -----------------------------
(***************************************************************************)
(* Known findings of the expansion family as predicates over an            *)
(* observation (abstract case + projected graphs).  A failing case that    *)
(* satisfies the predicate of a finding listed in /verif/known_findings.json *)
(* is reported as KNOWN-FINDING, every other failure as VIOLATION.         *)
(***************************************************************************)
EXTENDS RefGraph

\* KF-REBASE-PREFIX (normalizer.go rebase: strings.HasPrefix/TrimPrefix on the document
\* path).  A kept circular $ref into a document whose URL path merely starts with the
\* root document's path (root.jsonx, root.json.d/b.json next to root.json) is rewritten
\* relative to the root with the common string prefix cut off ("x#/...", ".d/b.json#/...").
\* Only the relative form is affected (AbsoluteCircularRef off), and only when a reference
\* cycle passes through such a document.
\* In skip-schemas mode every schema $ref is rebased that way, cyclic or not.
KF_RebasePrefix(o, tmIn, cyc, live) ==
  \/ /\ ~o.opts.abs
     /\ \E k \in cyc : o.collide[o.nodes[k].doc]
  \/ /\ o.opts.skip
     /\ \E k \in live :
          /\ o.nodes[k].isref
          \* the document the reference points into (whether or not the loader delivers it)
          /\ LET u == Resolve(o.docs[o.nodes[k].doc].url, o.nodes[k].ref)
             IN  \E d \in 1..Len(o.docs) : ~o.docs[d].out /\ SameDocLocal(o.docs[d].url, u) /\ o.collide[d]

\* KF-CHAIN-MULTIHOP (schema_loader.go deref + expander.go expandParameterOrResponse).
\* A parameter / response / path item reached through a chain of two or more $ref hops of
\* which at least one leaves its document: every hop after the first is resolved with the
\* resolver (root document, base path) of the first holder.
\* The finding is listed for the cases in which reading with the wrong resolver CAN make a difference: some
\* later hop, or some $ref inside the final object, stands in a document other than the first holder's and
\* designates another document when it is read from the first holder's location (a fragment-only or relative
\* reference; absolute ones read the same from anywhere).  Where it cannot, a failure is a violation.
RECURSIVE RefsBelow(_, _, _)
RefsBelow(o, m, fuel) ==
  IF m = 0 \/ fuel = 0 THEN {}
  ELSE IF o.nodes[m].isref THEN {m}
  ELSE UNION {RefsBelow(o, Child(o, m, p), fuel - 1) : p \in PosSet(o, m)}
RECURSIVE ChainTail(_, _, _, _)
ChainTail(o, tmIn, t, fuel) ==
  IF t = 0 \/ fuel = 0 THEN {}
  ELSE IF o.nodes[t].isref THEN {t} \cup ChainTail(o, tmIn, tmIn[t], fuel - 1)
  ELSE RefsBelow(o, t, 8)
WrongBase(o, h, m) ==
  LET r == o.nodes[m].ref
  IN  /\ o.nodes[m].doc # h
      /\ ~SameDocLocal(Resolve(o.docs[h].url, r), Resolve(o.docs[o.nodes[m].doc].url, r))
ChainMultiHop(o, tmIn, live) ==
  \E k \in live :
     /\ o.nodes[k].isref /\ o.nodes[k].kind \in {"p", "r", "i"}
     /\ LET t == tmIn[k] IN
        /\ t # 0 /\ o.nodes[t].isref
        /\ \E m \in ChainTail(o, tmIn, t, 8) : WrongBase(o, o.nodes[k].doc, m)
\* KF-ID-RELDIR-CYCLE (schema_loader.go setSchemaID + expander.go expandSchema).  A schema
\* whose id is a relative directory ("sub/") re-scopes the base path to <base dir>/sub/...;
\* a reference cycle through that schema re-enters it with the new base, registers
\* <base dir>/sub/sub/... and so on: every turn has a new canonical ref, the cycle test never
\* fires and the expansion never returns.
IdReldirOnCycle(o) ==
  LET n == Len(o.abstract)
      succ(m) == IF o.abstract[m].t = "ref" THEN (IF o.abstract[m].to = 0 THEN {} ELSE {o.abstract[m].to})
                 ELSE {k \in 1..n : o.abstract[k].owner = m}
      reach1(S) == S \cup UNION {succ(m) : m \in S}
      reach(m) == reach1(reach1(reach1(reach1(reach1(reach1(succ(m)))))))
  IN  \E m \in 1..n : /\ "idc" \in DOMAIN o.abstract[m] /\ o.abstract[m].idc = "reldir"
                       /\ m \in reach(m)
=============================================================================
