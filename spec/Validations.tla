---------------------------- MODULE Validations ----------------------------
(***************************************************************************)
(* C20: the validation accessors of schemas, parameters, headers and items *)
(* as an explicit state machine.                                           *)
(*   state   [c : carrier, v : keyword -> "a" (absent) | "z" (present with *)
(*            the zero value) | "v" (present, non-zero), log : callback    *)
(*            log, other : digest of every other field]                    *)
(*   actions Clear(family, number of callbacks), GetSet (write back what   *)
(*           was read), SetGet(V) (write V, read it back)                  *)
(* Mode "gen"  : TLC enumerates initial states and clear programs and      *)
(*               model-checks the laws on the state machine.               *)
(* Mode "judge": TLC validates traces recorded from the real objects: each *)
(*               recorded step must be the step the model takes.           *)
(***************************************************************************)
EXTENDS Naturals, Sequences, FiniteSets, TLC, Json, SequencesExt

CONSTANTS Mode, InFile, OutFile, ProgFile,
          MaxProg,          \* maximal length of a clear program
          Carriers,         \* subset of {"schema","parameter","header","items"}
          EdgeOnly          \* BOOLEAN: for schemas, the 12 common keywords are present all, none or one at a time

Number == {"minimum", "maximum", "exclusiveMaximum", "exclusiveMinimum", "multipleOf"}
String == {"pattern", "minLength", "maxLength"}
Array  == {"maxItems", "minItems", "uniqueItems"}
Object == {"maxProperties", "minProperties", "patternProperties"}
K12 == Number \cup String \cup Array \cup {"enum"}
K15 == K12 \cup Object
Fam(f) == CASE f = "number" -> Number [] f = "string" -> String [] f = "array" -> Array [] OTHER -> Object
Families(c) == IF c = "schema" THEN {"number", "string", "array", "object"} ELSE {"number", "string", "array"}
KeysOf(c) == IF c = "schema" THEN K15 ELSE K12
\* booleans and the pattern string have no "present but zero" value
TwoValued == {"exclusiveMaximum", "exclusiveMinimum", "uniqueItems", "pattern"}
Norm(k, x) == IF k \in TwoValued /\ x = "z" THEN "a" ELSE x

\* ---- the actions
\* Clear: exactly the family becomes absent; every callback hears every removed keyword
\* with its previous value, callbacks in order, keywords in the order of the code
ClearOrder(f) == CASE f = "number" -> <<"minimum", "maximum", "exclusiveMaximum", "exclusiveMinimum", "multipleOf">>
                   [] f = "string" -> <<"pattern", "minLength", "maxLength">>
                   [] f = "array"  -> <<"maxItems", "minItems", "uniqueItems">>
                   [] OTHER        -> <<"maxProperties", "minProperties", "patternProperties">>
Removed(s, f) == SelectSeq(ClearOrder(f), LAMBDA k : s.v[k] # "a")
CbLog(s, f, ncb) ==
  LET r == Removed(s, f)
  IN  [i \in 1..(ncb * Len(r)) |-> <<((i - 1) \div Len(r)) + 1, r[((i - 1) % Len(r)) + 1],
                                      s.v[r[((i - 1) % Len(r)) + 1]]>>]
Clear(s, f, ncb) == [s EXCEPT !.v = [k \in DOMAIN s.v |-> IF k \in Fam(f) THEN "a" ELSE s.v[k]],
                              !.log = CbLog(s, f, ncb)]
GetSet(s) == [s EXCEPT !.log = <<>>]
\* V is a full 15-keyword assignment; a carrier keeps its own keywords only
SetGet(s, V) == [s EXCEPT !.v = [k \in DOMAIN s.v |-> Norm(k, V[k])], !.log = <<>>]

Has(s, f) == CASE f = "number" -> \E k \in {"maximum", "minimum", "multipleOf"} : s.v[k] # "a"
               [] f = "string" -> \E k \in String : s.v[k] # "a"
               [] f = "array"  -> \E k \in Array : s.v[k] # "a"
               [] OTHER        -> \E k \in Object : s.v[k] # "a"

\* ---- the state machine explored by TLC (Mode gen)
Presence(c) == IF c = "schema" /\ EdgeOnly
               THEN {P \cup Q : P \in {{}, K12} \cup {{k} : k \in K12}, Q \in SUBSET Object}
               ELSE SUBSET KeysOf(c)
AllV(c, cls) == {[k \in KeysOf(c) |-> IF k \in P THEN Norm(k, cls) ELSE "a"] : P \in Presence(c)}
InitStates == UNION {{[c |-> c, v |-> v, log |-> <<>>, other |-> "kept"] : v \in AllV(c, cls)}
                      : c \in Carriers, cls \in {"z", "v"}}

VARIABLES st, steps
Init == IF Mode = "gen" THEN st \in InitStates /\ steps = 0
        ELSE st = [c |-> "none"] /\ steps = MaxProg      \* judge mode explores nothing
Next == /\ steps < MaxProg
        /\ \E f \in Families(st.c), n \in 0..2 : st' = Clear(st, f, n)
        /\ steps' = steps + 1
Spec == Init /\ [][Next]_<<st, steps>>

\* laws (checked in every reachable state)
LawGetSet == GetSet(st).v = st.v
LawClearExact == \A f \in Families(st.c), n \in 0..2 :
   LET t == Clear(st, f, n) IN
     /\ \A k \in DOMAIN st.v : t.v[k] = IF k \in Fam(f) THEN "a" ELSE st.v[k]
     /\ ~Has(t, f)
     /\ t.other = st.other
     /\ Len(t.log) = n * Cardinality({k \in Fam(f) : st.v[k] # "a"})
     /\ \A c \in 1..n, k \in Fam(f) :
          Cardinality({i \in 1..Len(t.log) : t.log[i][1] = c /\ t.log[i][2] = k}) = IF st.v[k] # "a" THEN 1 ELSE 0
LawClearIdem == \A f \in Families(st.c) : Clear(Clear(st, f, 1), f, 1).log = <<>>

\* ---- export (Mode gen): initial states and clear programs
RECURSIVE Progs(_, _)
Progs(c, n) == IF n = 0 THEN {<<>>}
               ELSE Progs(c, n - 1) \cup
                    {Append(p, f) : p \in {q \in Progs(c, n - 1) : Len(q) = n - 1},
                                    f \in Families(c)}
NoRepeat(p) == \A i, j \in 1..Len(p) : p[i] = p[j] => i = j
ProgramsOf(c) == {p \in Progs(c, MaxProg) : p # <<>> /\ NoRepeat(p)}
ProgramRecs == UNION {{[c |-> c, prog |-> p, ncb |-> n] : p \in ProgramsOf(c), n \in 0..2} : c \in Carriers}

ASSUME Mode = "gen" =>
  /\ PrintT(<<"NSTATES", Cardinality(InitStates), "NPROGS", Cardinality(ProgramRecs)>>)
  /\ ndJsonSerialize(OutFile, SetToSeq({[c |-> s.c, v |-> s.v] : s \in InitStates}))
  /\ ndJsonSerialize(ProgFile, SetToSeq(ProgramRecs))

\* ---- trace validation (Mode judge)
\* a recorded run: [c, v0, other0, steps : Seq([op, fam, ncb, V, v, log, other, has])]
Observations == IF Mode = "judge" THEN ndJsonDeserialize(InFile) ELSE <<>>
MkState(c, v, other) == [c |-> c, v |-> v, log |-> <<>>, other |-> other]
ModelStep(s, e) == IF e.op = "clear" THEN Clear(s, e.fam, e.ncb)
                   ELSE IF e.op = "getset" THEN GetSet(s)
                   ELSE SetGet(s, e.V)
StepOK(s, e) ==
  LET t == ModelStep(s, e)
  IN  /\ e.v = t.v
      /\ e.other = s.other
      /\ (e.op = "clear" => (e.log = t.log /\ e.has = Has(t, e.fam) /\ ~e.has))
RECURSIVE FirstBad(_, _, _)
FirstBad(s, steps_, i) ==
  IF i > Len(steps_) THEN 0
  ELSE IF ~StepOK(s, steps_[i]) THEN i
  ELSE FirstBad([ModelStep(s, steps_[i]) EXCEPT !.log = <<>>], steps_, i + 1)
Verdict(o) ==
  LET bad == FirstBad(MkState(o.c, o.v0, o.other0), o.steps, 1)
  IN  [id |-> o.id, c20 |-> IF bad = 0 THEN "pass" ELSE "fail", at |-> bad]
ASSUME Mode = "judge" => ndJsonSerialize(OutFile, [i \in 1..Len(Observations) |-> Verdict(Observations[i])])
=============================================================================
