------------------------------- MODULE RWLock -------------------------------
(***************************************************************************)
(* The reader/writer protocol of the resolution cache (sync.RWMutex in     *)
(* cache.go) and the once-only initialisation of the package cache, as     *)
(* predicates shared by the design model (Cache.tla) and by the validation *)
(* of linearisation traces recorded from the real code (CacheTrace.tla).   *)
(***************************************************************************)
EXTENDS Naturals, FiniteSets

\* lock state of one cache: the set of readers inside, the writer inside (or "none")
CanEnterRead(lk)  == lk.writer = "none"
CanEnterWrite(lk) == lk.writer = "none" /\ lk.readers = {}
EnterRead(lk, p)  == [lk EXCEPT !.readers = @ \cup {p}]
LeaveRead(lk, p)  == [lk EXCEPT !.readers = @ \ {p}]
EnterWrite(lk, p) == [lk EXCEPT !.writer = p]
LeaveWrite(lk, p) == [lk EXCEPT !.writer = "none"]
FreeLock == [readers |-> {}, writer |-> "none"]

\* no writer shares the critical section with anybody
Exclusive(lk) == lk.writer # "none" => lk.readers = {}
=============================================================================
