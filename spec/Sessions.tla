----------------------------- MODULE Sessions -----------------------------
(***************************************************************************)
(* C16: calls share no hidden state.  Histories of public calls made       *)
(* without a caller-supplied cache, over a world of documents whose        *)
(* content changes between calls, and over package-level state:            *)
(*   world     : document -> content version                               *)
(*   pkgCache  : keys of the package-level resolution cache (built-ins)    *)
(*   callCache : the per-call cache: a shallow clone of pkgCache, filled   *)
(*               while the call runs, dropped when it returns              *)
(* Every call's result is the vector of the versions it read: it must be   *)
(* the world as it is during that call, whatever happened before.          *)
(* TLC checks the invariants on the machine and exports every history of   *)
(* bounded length with the expected result of each call; the worker        *)
(* replays all of them in ONE process, so real package state persists.     *)
(***************************************************************************)
EXTENDS Naturals, Sequences, FiniteSets, TLC, Json, SequencesExt

CONSTANTS MaxLen, OutFile

Docs == {"d1", "d2", "d3"}
Builtins == {"swagger20", "draft04"}

\* the calls: which root they start from and which documents they must read
Calls == {
  [name |-> "specA",     root |-> "A", uses |-> {"d1"}],
  [name |-> "specB",     root |-> "B", uses |-> {"d1", "d3"}],
  [name |-> "schemaA",   root |-> "none", uses |-> {"d1"}],
  [name |-> "resolveA",  root |-> "none", uses |-> {"d2"}],
  [name |-> "withRootA", root |-> "A", uses |-> {"d1"}],
  [name |-> "withRootB", root |-> "B", uses |-> {"d1", "d3"}],
  [name |-> "nobaseA",   root |-> "none", uses |-> {"d1"}],
  [name |-> "metaref",   root |-> "meta", uses |-> {}],
  \* a document published next to the built-in meta-schemas (same hosts, another path): fetched like any other
  [name |-> "metahost",  root |-> "none", uses |-> {"d2", "d3"}],
  [name |-> "meta",      root |-> "meta", uses |-> {}] }

VARIABLES world, cwd, pkgCache, callCache, results, n
vars == <<world, cwd, pkgCache, callCache, results, n>>

\* cwd: the process working directory (two directories holding the same documents); calls without a
\* RelativeBase locate documents from it - at the time of the call, not of an earlier one
Init == /\ world = [d \in Docs |-> 1] /\ cwd = 1 /\ pkgCache = Builtins /\ callCache = {}
        /\ results = <<>> /\ n = 0

\* one call, atomically: clone the package cache, load what is missing, answer, drop the clone
Call(c) ==
  /\ n < MaxLen
  /\ LET cache0 == pkgCache                              \* ShallowClone
         cache1 == cache0 \cup c.uses                    \* documents loaded during the call
     IN  /\ callCache' = {}                              \* the clone dies with the call
         /\ results' = Append(results, [call |-> c.name, root |-> c.root,
                                        vers |-> [d \in c.uses |-> world[d]]])
  /\ n' = n + 1
  /\ UNCHANGED <<world, cwd, pkgCache>>

ChangeWorld(d) ==
  /\ n < MaxLen /\ n' = n + 1
  /\ world' = [world EXCEPT ![d] = 3 - @]
  /\ UNCHANGED <<cwd, pkgCache, callCache, results>>

ChangeDir ==
  /\ n < MaxLen /\ n' = n + 1
  /\ cwd' = 3 - cwd
  /\ UNCHANGED <<world, pkgCache, callCache, results>>

Next == (\E c \in Calls : Call(c)) \/ (\E d \in Docs : ChangeWorld(d)) \/ ChangeDir
Spec == Init /\ [][Next]_vars

C16_PkgCache  == pkgCache = Builtins
C16_NoLeftover == callCache = {}
\* the answer of a call is the world as it is while the call runs
C16_Stateless == [][Len(results') > Len(results) =>
                      LET r == results'[Len(results')] IN \A d \in DOMAIN r.vers : r.vers[d] = world[d]]_vars

\* ---- export of all histories with the expected result vectors
Steps == {[k |-> "call", x |-> c.name] : c \in Calls} \cup {[k |-> "world", x |-> d] : d \in Docs \cup {"cwd"}}
RECURSIVE Hists(_)
Hists(m) == IF m = 0 THEN {<<>>}
            ELSE LET H == Hists(m - 1) IN H \cup {Append(h, s) : h \in {g \in H : Len(g) = m - 1}, s \in Steps}
CallNamed(x) == CHOOSE c \in Calls : c.name = x
RECURSIVE Expect(_, _, _)
Expect(h, i, w) ==
  IF i > Len(h) THEN <<>>
  ELSE IF h[i].k = "world"
       THEN <<[k |-> "world", x |-> h[i].x, root |-> "", d1 |-> 0, d2 |-> 0, d3 |-> 0]>>
            \o Expect(h, i + 1, IF h[i].x = "cwd" THEN w ELSE [w EXCEPT ![h[i].x] = 3 - @])
       ELSE LET c == CallNamed(h[i].x)
                v(d) == IF d \in c.uses THEN w[d] ELSE 0
            IN  <<[k |-> "call", x |-> c.name, root |-> c.root, d1 |-> v("d1"), d2 |-> v("d2"), d3 |-> v("d3")]>>
                \o Expect(h, i + 1, w)
\* histories worth replaying: they end with a call and contain at least two calls or a change
Interesting(h) == /\ h # <<>> /\ h[Len(h)].k = "call"
                  /\ Cardinality({i \in 1..Len(h) : TRUE}) >= 2
Export == {Expect(h, 1, [d \in Docs |-> 1]) : h \in {g \in Hists(MaxLen) : Interesting(g)}}
ASSUME /\ PrintT(<<"NHIST", Cardinality(Export)>>)
       /\ ndJsonSerialize(OutFile, SetToSeq({[steps |-> e] : e \in Export}))
=============================================================================
