---------------------------- MODULE CodecOracle ----------------------------
(***************************************************************************)
(* Property predicates of the codec family evaluated on observations of    *)
(* the real package (decode, encode, re-decode, gob, pointer look-ups of   *)
(* documents enumerated by CodecCases.tla):                                *)
(*   C01  normal form      => encoding = source as a JSON value            *)
(*   C06  encoding         => no duplicate member, parses back, same bytes *)
(*   C07  any input        => value or error; encoded form is a fixed point*)
(*   C14  gob transport    => same JSON encoding                           *)
(*   C15  in-scope pointer => typed look-up = look-up on the encoding      *)
(* Whether an input is in normal form and whether a pointer is in scope is *)
(* decided here, from the vocabulary generated from the meta-schemas.      *)
(***************************************************************************)
EXTENDS Vocabulary, TLC, Json, SequencesExt

CONSTANTS ObsFile, VerdictFile
Observations == ndJsonDeserialize(ObsFile)

Payloads == {"str", "num", "zero", "true", "false", "strArr", "objArr", "obj", "nested"}
IsPrefix4(s, p) == Len(s) >= Len(p) /\ SubSeq(s, 1, Len(p)) = p
KidKind(vt) == IF IsPrefix4(vt, "kind:") THEN SubSeq(vt, 6, Len(vt))
               ELSE IF IsPrefix4(vt, "map:") THEN SubSeq(vt, 5, Len(vt))
               ELSE IF IsPrefix4(vt, "list:") THEN SubSeq(vt, 6, Len(vt))
               ELSE ""
NFClasses(vt, req) ==
  CASE vt = "str"  -> IF req THEN {"str", "emptyStr"} ELSE {"str"}
    [] vt = "bool" -> {"true"}
    [] vt = "num"  -> {"zero", "frac", "int", "neg"}
    [] vt = "int"  -> {"zero", "int"}
    [] vt = "any"  -> Payloads
    [] vt = "anys" -> {"strArr", "mixedArr"}
    [] vt = "strs" -> {"strArr"}
    [] vt = "typeUnion" -> {"str", "strArr2"}
    [] vt = "schemaOrArray" -> {"schema", "schemaList1", "schemaList2", "refObj"}
    [] vt = "schemaOrBool" -> {"schema", "true", "false", "refObj"}
    [] vt = "map:schemaOrStrings" -> {"depSchema", "depStrs", "depBoth"}
    [] vt = "security" -> {"sec1", "secEmptyScopes", "secTwo"}
    [] vt = "scopes" -> IF req THEN {"scopes1", "scopesEmpty"} ELSE {"scopes1"}
    [] vt = "anymap" -> {"ex1", "ex2"}
    [] vt = "ref" -> {"refLocal", "refRemote"}
    [] vt = "kind:paths" -> IF req THEN {"obj", "emptyObj"} ELSE {"obj"}
    [] vt = "kind:schema" -> {"obj", "refObj"}            \* a schema may be given as a reference
    [] OTHER -> IF KidKind(vt) = "" THEN {"str"}
                ELSE IF IsPrefix4(vt, "map:") THEN {"map1", "map2"}
                ELSE IF IsPrefix4(vt, "list:") THEN {"list1", "list2"}
                ELSE {"obj"}

Members(c) == {c.members[i] : i \in 1..Len(c.members)}
IsReq(c, m) == m.name \in RequiredOf(c.kind, c.fl)
\* the wild family writes the class literally: only classes that mean the same there count
WildNF(m, req) == m.cls \in (NFClasses(m.vt, req) \cap {"str", "emptyStr", "true", "zero", "strArr", "obj"})
                  /\ ~(m.vt \in {"bool"} /\ m.cls # "true")
NF(c) == IF c.fam = "wild" THEN FALSE        \* wild inputs are judged for totality / idempotence only
         ELSE IF c.fam \in {"payload", "odd", "oddkeys", "extcase", "casefold"} THEN FALSE
         ELSE \A m \in Members(c) : m.cls \in NFClasses(m.vt, IsReq(c, m))

\* ---------------------------------------------------------------- C15 scope
ScopeKinds == {"swagger", "schema", "parameter", "response", "header", "items", "pathItem", "operation",
               "securityScheme", "info", "tag"}
AddressedKind(vt) == IF vt \in {"schemaOrArray", "schemaOrBool"} THEN "schema" ELSE KidKind(vt)
InScope(trail) ==
  LET t == trail[Len(trail)]        \* <<holder kind, token, value type>>
  IN  \/ AddressedKind(t[3]) \in ScopeKinds
      \/ (t[1] \in ScopeKinds /\ t[3] # "ref")
BadInScope(o) == {i \in 1..Len(o.badptr) : InScope(o.badptr[i].trail)}

\* ---------------------------------------------------------------- known findings
Scalars == {"true", "false", "zero", "num", "emptyStr", "str", "frac", "int", "neg"}
KF(o) ==
  LET c == o.case IN
  \* the required members that sit behind omitempty (the finding lists exactly these; a required member that IS
  \* written when empty - response.description, oauth2 authorizationUrl - is not covered)
  (IF \E m \in Members(c) : /\ IsReq(c, m) /\ m.cls \in {"emptyStr", "scopesEmpty"}
                              /\ <<c.kind, m.name>> \in {<<"info", "title">>, <<"info", "version">>, <<"license", "name">>, <<"externalDocs", "url">>,
                                     <<"tag", "name">>, <<"parameter", "name">>, <<"parameter", "type">>, <<"header", "type">>,
                                     <<"securityScheme", "name">>, <<"securityScheme", "tokenUrl">>, <<"securityScheme", "scopes">>}
   THEN {"KF-REQUIRED-EMPTY"} ELSE {})
  \cup (IF c.kind \in {"externalDocs", "xml"} /\ \E m \in Members(c) : (IsPrefix4(m.name, "x-") \/ IsPrefix4(m.name, "X-")) THEN {"KF-EXT-NO-CARRIER"} ELSE {})
  \cup (IF \E m \in Members(c) : m.vt \in {"num", "int"} /\ m.cls = "zero" THEN {"KF-GOB-ZERO"} ELSE {})
  \cup (IF \E m \in Members(c) : m.cls \in {"withEmpty", "emptyArr", "mix"} THEN {"KF-GOB-EMPTY-ARRAY"} ELSE {})
  \cup (IF \E m \in Members(c) : m.name = "items" /\ c.kind = "schema" /\ c.fam = "wild" /\ m.cls \in Scalars
        THEN {"KF-ITEMS-SCALAR"} ELSE {})

PF(applies, holds) == IF ~applies THEN "na" ELSE IF holds THEN "pass" ELSE "fail"

Verdict(o) ==
  LET ok == o.outcome = "ok"
      nf == NF(o.case)
      bad15 == IF ok THEN BadInScope(o) ELSE {}
  IN [ id |-> o.id, nf |-> nf,
       c01 |-> PF(nf, ok /\ o.eq),
       \* (the text must parse back to what the model holds: decoding it and encoding again reproduces it)
       c06 |-> PF(ok /\ o.case.fam # "casefold", o.dups = <<>> /\ o.faithful /\ o.det /\ o.idem),
       c07total |-> PF(TRUE, o.outcome \in {"ok", "decode-error", "encode-error"}),
       c07idem  |-> PF(ok /\ o.case.fam # "casefold", o.idem),
       c07bytes |-> PF(o.nmut > 0, o.mutbad = <<>>),
       c14 |-> PF(ok /\ o.gob # "na" /\ (nf \/ o.case.fam \in {"payload", "odd", "oddkeys", "extcase"}), o.gob = "eq"),
       c15 |-> PF(ok /\ o.nptr > 0, bad15 = {}),
       \* C19: validin / validrt / validexp are the verdicts of the JSON-schema validator (instrument)
       \* on the source, on its re-encoding and on its expansion: "t" | "f" | "n" (not produced)
       c19rt  |-> PF(o.validin = "t", ok /\ o.validrt = "t"),
       c19exp |-> PF(o.validin = "t" /\ ok, o.validexp = "t"),
       bad15 |-> SetToSeq({o.badptr[i].ptr : i \in bad15}),
       kf |-> SetToSeq(KF(o)) ]

ASSUME ndJsonSerialize(VerdictFile, [i \in 1..Len(Observations) |-> Verdict(Observations[i])])
VARIABLE x
Init == x = 0
Next == UNCHANGED x
=============================================================================
