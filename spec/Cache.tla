------------------------------- MODULE Cache -------------------------------
(***************************************************************************)
(* C17: goroutines using resolution caches concurrently.                   *)
(* Each process runs a short program of cache operations, each decomposed  *)
(* into the steps at which the real code takes / releases the lock and     *)
(* touches the map (cache.go):                                             *)
(*   Get(k)   : AcqR - read store[k] - RelR          (simpleCache.Get)     *)
(*   Set(k,v) : AcqW - write store[k] - RelW         (simpleCache.Set)     *)
(*   Clone    : AcqR - copy the store - RelR         (ShallowClone)        *)
(*   Init     : sync.Once around initResolutionCache (cacheOrDefault)      *)
(* on one shared cache.  Memory accesses are separate steps, so TLC sees   *)
(* every interleaving.  Checked: NoRace (a writer is never inside together *)
(* with anyone), OnceAtMostOnce, Linearizable (a Get returns the value of  *)
(* the latest Set before it in lock order), deadlock freedom.              *)
(***************************************************************************)
EXTENDS RWLock, Sequences, TLC, Json, SequencesExt

CONSTANTS Procs, MaxOps, OutFile

Ops == {"get", "set", "clone", "init"}
RECURSIVE Programs(_)
Programs(n) == IF n = 0 THEN {<<>>}
               ELSE Programs(n - 1) \cup {Append(p, o) : p \in {q \in Programs(n - 1) : Len(q) = n - 1}, o \in Ops}

VARIABLES prog,      \* the program of every process (chosen initially)
          ip,        \* index of the current operation
          pc,        \* "idle" | "want" | "in" | "done-op" ...
          lk,        \* lock state of the shared cache
          store,     \* value under the single key (0 = unset)
          clock,     \* number of writes so far (each Set writes a fresh value)
          lastw,     \* value written by the latest Set, in lock order
          got,       \* per process: value returned by its latest Get / snapshot of its latest Clone
          onceState, \* "new" | "running" | "done"
          inits      \* how many times the initialiser ran
vars == <<prog, ip, pc, lk, store, clock, lastw, got, onceState, inits>>

Init == /\ prog \in [Procs -> Programs(MaxOps)]
        /\ ip = [p \in Procs |-> 1] /\ pc = [p \in Procs |-> "idle"]
        /\ lk = FreeLock /\ store = 0 /\ clock = 0 /\ lastw = 0
        /\ got = [p \in Procs |-> 0] /\ onceState = "new" /\ inits = 0

Cur(p) == prog[p][ip[p]]
HasOp(p) == ip[p] <= Len(prog[p])
Advance(p) == ip' = [ip EXCEPT ![p] = @ + 1] /\ pc' = [pc EXCEPT ![p] = "idle"]

\* ---- read-side operations (Get, Clone)
AcqR(p) == /\ HasOp(p) /\ pc[p] = "idle" /\ Cur(p) \in {"get", "clone"}
           /\ CanEnterRead(lk) /\ lk' = EnterRead(lk, p) /\ pc' = [pc EXCEPT ![p] = "in"]
           /\ UNCHANGED <<prog, ip, store, clock, lastw, got, onceState, inits>>
ReadIn(p) == /\ HasOp(p) /\ pc[p] = "in" /\ Cur(p) \in {"get", "clone"}
             /\ got' = [got EXCEPT ![p] = store] /\ pc' = [pc EXCEPT ![p] = "out"]
             /\ UNCHANGED <<prog, ip, lk, store, clock, lastw, onceState, inits>>
RelR(p) == /\ HasOp(p) /\ pc[p] = "out" /\ Cur(p) \in {"get", "clone"}
           /\ lk' = LeaveRead(lk, p) /\ Advance(p)
           /\ UNCHANGED <<prog, store, clock, lastw, got, onceState, inits>>

\* ---- write-side operation (Set)
AcqW(p) == /\ HasOp(p) /\ pc[p] = "idle" /\ Cur(p) = "set"
           /\ CanEnterWrite(lk) /\ lk' = EnterWrite(lk, p) /\ pc' = [pc EXCEPT ![p] = "in"]
           /\ UNCHANGED <<prog, ip, store, clock, lastw, got, onceState, inits>>
WriteIn(p) == /\ HasOp(p) /\ pc[p] = "in" /\ Cur(p) = "set"
              /\ clock' = clock + 1 /\ store' = clock + 1 /\ lastw' = clock + 1
              /\ pc' = [pc EXCEPT ![p] = "out"]
              /\ UNCHANGED <<prog, ip, lk, got, onceState, inits>>
RelW(p) == /\ HasOp(p) /\ pc[p] = "out" /\ Cur(p) = "set"
           /\ lk' = LeaveWrite(lk, p) /\ Advance(p)
           /\ UNCHANGED <<prog, store, clock, lastw, got, onceState, inits>>

\* ---- sync.Once: the first caller runs the initialiser, the others wait for it
OnceEnter(p) == /\ HasOp(p) /\ pc[p] = "idle" /\ Cur(p) = "init" /\ onceState = "new"
                /\ onceState' = "running" /\ pc' = [pc EXCEPT ![p] = "in"]
                /\ UNCHANGED <<prog, ip, lk, store, clock, lastw, got, inits>>
OnceRun(p) == /\ HasOp(p) /\ pc[p] = "in" /\ Cur(p) = "init"
              /\ inits' = inits + 1 /\ onceState' = "done" /\ Advance(p)
              /\ UNCHANGED <<prog, lk, store, clock, lastw, got>>
OnceSkip(p) == /\ HasOp(p) /\ pc[p] = "idle" /\ Cur(p) = "init" /\ onceState = "done"
               /\ Advance(p)
               /\ UNCHANGED <<prog, lk, store, clock, lastw, got, onceState, inits>>

Step(p) == AcqR(p) \/ ReadIn(p) \/ RelR(p) \/ AcqW(p) \/ WriteIn(p) \/ RelW(p)
           \/ OnceEnter(p) \/ OnceRun(p) \/ OnceSkip(p)
AllDone == \A p \in Procs : ~HasOp(p)
Next == (\E p \in Procs : Step(p)) \/ (AllDone /\ UNCHANGED vars)
Spec == Init /\ [][Next]_vars /\ \A p \in Procs : WF_vars(Step(p))

\* the program assignments (= initial states) are exported for replay on real goroutines
ASSUME OutFile # "" => ndJsonSerialize(OutFile, SetToSeq({f \in [Procs -> Programs(MaxOps)] : \E p \in Procs : f[p] # <<>>}))

NoRace == Exclusive(lk)
OnceAtMostOnce == inits <= 1
\* inside a read section the value seen is the latest written one (in lock order)
Linearizable == \A p \in Procs : (HasOp(p) /\ pc[p] = "out" /\ Cur(p) \in {"get", "clone"}) => got[p] = lastw
NoDeadlock == AllDone \/ ENABLED (\E p \in Procs : Step(p))
Terminates == <>AllDone
=============================================================================
