----------------------------- MODULE ExpGraph -----------------------------
(***************************************************************************)
(* Operators on abstract reference graphs (sequences of node records       *)
(* [t, kind, owner, doc, to], see ExpCases.tla), shared by the enumerator  *)
(* and by the expander model.                                              *)
(***************************************************************************)
EXTENDS Naturals, Sequences, FiniteSets, TLC

Succs(w, m) == IF w[m].t = "ref" THEN (IF w[m].to = 0 THEN {} ELSE {w[m].to})
               ELSE {k \in 1..Len(w) : w[k].owner = m}
RECURSIVE Reach(_, _, _)
Reach(w, seen, fr) == IF fr = {} THEN seen
                      ELSE Reach(w, seen \cup fr,
                                 (UNION {Succs(w, m) : m \in fr}) \ (seen \cup fr))
Roots(w) == {m \in 1..Len(w) : w[m].owner = 0 /\ w[m].doc = 0}

\* a parameter / response / path item whose reference chain never reaches an object
RECURSIVE ChainEnds(_, _, _)
ChainEnds(w, m, fuel) == IF fuel = 0 THEN FALSE
                         ELSE IF w[m].t # "ref" THEN TRUE
                         ELSE IF w[m].to = 0 THEN TRUE
                         ELSE ChainEnds(w, w[m].to, fuel - 1)
WellFounded(w) == \A m \in 1..Len(w) : w[m].kind # "s" => ChainEnds(w, m, Len(w) + 1)

=============================================================================
