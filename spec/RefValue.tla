----------------------------- MODULE RefValue -----------------------------
(***************************************************************************)
(* C13: reference values.  One reference moves between representations     *)
(*   "str" --Parse--> "ref" --String--> "str", "ref" <--JSON--> "json",    *)
(*   "ref" <--gob--> "gob"                                                 *)
(* and every conversion must preserve its abstract value: the canonical    *)
(* text and the classification flags, which are a function of that text.   *)
(* A reference is described by syntax classes (the worker owns the         *)
(* characters):                                                            *)
(*   scheme ""|"http"|"https"|"file", up (scheme and host written in upper *)
(*   case), host ""|"h", port "none"|"default"|"other", abs, segs over     *)
(*   {"a","bj","esc","spc","uni","dup"} ("dup" = an empty segment, i.e. a  *)
(*   doubled slash), frag "none"|"empty"|"ptr"|"esc"|"pct"                 *)
(***************************************************************************)
EXTENDS Naturals, Sequences, FiniteSets, TLC, Json, SequencesExt

CONSTANTS MaxSegs, MaxProg, OutFile, ProgFile

\* ("dot" and "dd" are the segments "." and "..": a reference keeps them as written)
Segs0 == {"a", "bj", "esc", "spc", "uni", "dot", "dd"}
RECURSIVE SegSeqs(_)
SegSeqs(n) == IF n = 0 THEN {<<>>}
              ELSE SegSeqs(n - 1) \cup {Append(s, x) : s \in {t \in SegSeqs(n - 1) : Len(t) = n - 1}, x \in Segs0 \cup {"dup"}}
\* a doubled slash only between two segments
Paths == {s \in SegSeqs(MaxSegs + 1) : /\ Len(SelectSeq(s, LAMBDA x : x # "dup")) <= MaxSegs
                                       /\ (s # <<>> => s[1] # "dup" /\ s[Len(s)] # "dup")
                                       /\ \A i \in 1..(Len(s) - 1) : ~(s[i] = "dup" /\ s[i + 1] = "dup")}
\* ("anchor": a fragment that is no JSON pointer, "#anchor")
Frags == {"none", "empty", "ptr", "esc", "pct", "anchor"}

R(scheme, up, host, port, abs, segs, frag) ==
  [scheme |-> scheme, up |-> up, host |-> host, port |-> port, abs |-> abs, segs |-> segs, frag |-> frag]

Refs ==
  \* no scheme, no host: relative or absolute path, or nothing but a fragment
  {R("", FALSE, "", "none", a, p, f) : a \in BOOLEAN, p \in Paths, f \in Frags}
  \cup {R(s, u, "h", pt, TRUE, p, f) : s \in {"http", "https"}, u \in BOOLEAN, pt \in {"none", "default", "other"},
                                       p \in Paths, f \in Frags}
  \cup {R("file", u, h, "none", TRUE, p, f) : u \in BOOLEAN, h \in {"", "h"}, p \in Paths \ {<<>>}, f \in Frags}
  \* nothing but an authority: scheme://host[:port] with no path at all
  \cup {R(s, u, "h", pt, FALSE, <<>>, f) : s \in {"http", "https"}, u \in BOOLEAN, pt \in {"none", "default", "other"}, f \in Frags}
  \cup {R("file", u, "h", pt, FALSE, <<>>, f) : u \in BOOLEAN, pt \in {"none", "other"}, f \in Frags}   \* file has no default port

\* ---- canonicalisation: lower-case scheme and host, default port and doubled slashes removed
Canon(r) == [r EXCEPT !.up = FALSE,
                      !.port = IF r.port = "default" THEN "none" ELSE r.port,
                      !.segs = SelectSeq(r.segs, LAMBDA x : x # "dup"),
                      !.frag = IF r.frag = "empty" THEN "none" ELSE r.frag]   \* "x#" prints as "x"

\* ---- classification, a function of the canonical value
Flags(c) ==
  LET full     == c.scheme # "" /\ c.host # ""
      haspath  == c.abs \/ c.segs # <<>>
      pathonly == ~full /\ haspath
      fragonly == ~full /\ ~haspath /\ c.frag \notin {"none", "empty"}
      file     == c.scheme = "file"
      canonical == (file /\ c.abs) \/ (~file /\ full)
  IN [full |-> full, pathonly |-> pathonly, fragonly |-> fragonly, file |-> file, fullpath |-> c.abs,
      root |-> ~canonical /\ ~pathonly /\ c.frag \in {"none", "empty"}]

\* the text prints as the empty string: the root reference ("" or "#")
PrintsEmpty(c) == c.scheme = "" /\ c.host = "" /\ ~c.abs /\ c.segs = <<>> /\ c.frag \in {"none", "empty"}

\* ---- the conversion machine
VARIABLES rep, val, steps
Init == rep = "str" /\ val \in Refs /\ steps = 0
Parse     == rep = "str"  /\ rep' = "ref"  /\ val' = Canon(val)
String    == rep = "ref"  /\ rep' = "str"  /\ UNCHANGED val
ToJSON    == rep = "ref"  /\ rep' = "json" /\ UNCHANGED val
FromJSON  == rep = "json" /\ rep' = "ref"  /\ UNCHANGED val
ToGob     == rep = "ref"  /\ rep' = "gob"  /\ UNCHANGED val
FromGob   == rep = "gob"  /\ rep' = "ref"  /\ UNCHANGED val
\* looking at a reference (IsRoot, IsCanonical, IsValidURI, RemoteURI, GetURL, GetPointer, Inherits) or handing a
\* copy of it to a resolution / expansion is a stuttering step: the worker inserts it before every conversion
Look      == rep = "ref" /\ UNCHANGED <<val, rep>>
Next == steps < 2 * MaxProg + 1 /\ steps' = steps + 1
        /\ (Parse \/ String \/ ToJSON \/ FromJSON \/ ToGob \/ FromGob \/ Look)
Spec == Init /\ [][Next]_<<rep, val, steps>>

\* canonicalisation is idempotent; past the first Parse the value never changes and is canonical
C13_Idempotent == Canon(Canon(val)) = Canon(val)
C13_Canonical  == rep # "str" => Canon(val) = val
C13_Stable     == [][rep # "str" => val' = val]_<<rep, val, steps>>
C13_FlagsOfCanon == Flags(Canon(val)) = Flags(Canon(Canon(val)))

\* ---- export: every reference with its canonical value, flags and JSON form; the programs
Progs == UNION {[1..n -> {"reparse", "json", "gob"}] : n \in 1..MaxProg}
CaseOf(r) == [r |-> r, canon |-> Canon(r), flags |-> Flags(Canon(r)), empty |-> PrintsEmpty(Canon(r))]
ASSUME /\ PrintT(<<"NREFS", Cardinality(Refs), "NPROGS", Cardinality(Progs)>>)
       /\ ndJsonSerialize(OutFile, SetToSeq({CaseOf(r) : r \in Refs}))
       /\ ndJsonSerialize(ProgFile, SetToSeq({[prog |-> p] : p \in Progs}))
=============================================================================
