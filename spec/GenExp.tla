------------------------------ MODULE GenExp ------------------------------
(* Writes the enumerated graphs of ExpCases to an ndjson file: the initial  *)
(* states of Expander.tla and the inputs of the replay into the real code.  *)
EXTENDS ExpCases, Json, SequencesExt
CONSTANT OutFile
ASSUME PrintT(<<"NCASES", Cardinality(EnumCases)>>)
ASSUME ndJsonSerialize(OutFile, SetToSeq(EnumCases))
VARIABLE x
Init == x = 0
Next == UNCHANGED x
=============================================================================
