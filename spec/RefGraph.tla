----------------------------- MODULE RefGraph -----------------------------
(***************************************************************************)
(* Reference graphs of multi-document Swagger specifications and their     *)
(* semantics under "$ref replaces its holder".                             *)
(*                                                                         *)
(* A graph g is a record                                                   *)
(*   docs  : Seq([url : URL, out : BOOLEAN])   document locations; the     *)
(*           documents flagged out are results of an expansion and sit at  *)
(*           the location of the root document                             *)
(*   nodes : Seq([doc, path, kind, lab, isref, ref, kids])                 *)
(*           doc  - index into docs                                        *)
(*           path - JSON pointer tokens of the node inside its document    *)
(*           lab  - digest of everything the node holds that is not a      *)
(*                  child position (title, type, ...)                      *)
(*           isref/ref - the node is {"$ref": ref}; ref is a URL as        *)
(*                  written (not resolved)                                 *)
(*           kids - Seq([pos, id]) owned children, pos = "properties/K1",  *)
(*                  "items", "allOf/0", "schema", "get/responses/200" ...  *)
(* A document is a tree; cycles arise only through $ref.                   *)
(* Everything here is a function of what was projected from real JSON:     *)
(* the resolution of every reference is done by Urls!Resolve, never by the *)
(* library under test.                                                     *)
(***************************************************************************)
EXTENDS Urls, FiniteSets, TLC

NodeIds(g) == 1..Len(g.nodes)

\* ------------------------------------------------------------ designation
\* documents flagged dead are refused by the loader (C08): they designate nothing
DocAt(g, u, preferOut) ==
  LET cands == {d \in 1..Len(g.docs) : SameDocLocal(g.docs[d].url, u) /\ ~g.docs[d].dead}
      outs  == {d \in cands : g.docs[d].out}
      ins   == cands \ outs
  IN  IF preferOut /\ outs # {} THEN CHOOSE d \in outs : TRUE
      ELSE IF ins # {} THEN CHOOSE d \in ins : TRUE
      ELSE 0

NodeAt(g, d, ptr) ==
  LET S == {k \in NodeIds(g) : g.nodes[k].doc = d /\ g.nodes[k].path = ptr}
  IN  IF S = {} THEN 0 ELSE CHOOSE k \in S : TRUE

\* The node a reference written in document d designates (0 = nothing).
\* A $ref is interpreted relative to the document that textually contains it.
Designates(g, d, ref, preferOut) ==
  LET u  == Resolve(g.docs[d].url, ref)
      d2 == DocAt(g, u, preferOut)
      k2 == IF d2 = 0 THEN 0 ELSE NodeAt(g, d2, u.ptr)
  IN  IF k2 = 0 /\ preferOut /\ d2 # 0 /\ g.docs[d2].out
      THEN \* a partial result (single-element expansion): fall back to the input documents
           LET d3 == DocAt(g, u, FALSE) IN IF d3 = 0 THEN 0 ELSE NodeAt(g, d3, u.ptr)
      ELSE k2

\* Target of the reference held by node k.  References found in an output
\* document are read against the output root first (the result must be
\* self-contained), references in input documents against the inputs.
Target(g, k) ==
  IF ~g.nodes[k].isref THEN 0
  ELSE Designates(g, g.nodes[k].doc, g.nodes[k].ref, g.docs[g.nodes[k].doc].out)

\* The same reference read in the input graph only (used for "on a cycle of
\* the input").
TargetInInput(g, k) ==
  IF ~g.nodes[k].isref THEN 0
  ELSE Designates(g, g.nodes[k].doc, g.nodes[k].ref, FALSE)

TargetMap(g) == [k \in NodeIds(g) |-> Target(g, k)]

\* ------------------------------------------------------------ unfolding
\* Deref follows $refs to the object they stand for.  Result: a non-ref node; or a ref
\* node that designates nothing (an opaque, dangling reference); or 0 = Bottom for a pure
\* $ref cycle.
RECURSIVE DerefN(_, _, _, _)
DerefN(g, tm, k, fuel) ==
  IF k = 0 \/ fuel = 0 THEN 0
  ELSE IF ~g.nodes[k].isref THEN k
  ELSE IF tm[k] = 0 THEN k
  ELSE DerefN(g, tm, tm[k], fuel - 1)
Deref(g, tm, k) == DerefN(g, tm, k, Len(g.nodes) + 1)

IsDangling(g, tm, k) == k # 0 /\ g.nodes[k].isref /\ tm[k] = 0
PosSet(g, k) == IF g.nodes[k].isref THEN {}
                ELSE {g.nodes[k].kids[i].pos : i \in 1..Len(g.nodes[k].kids)}
Child(g, k, p) ==
  LET i == CHOOSE i \in 1..Len(g.nodes[k].kids) : g.nodes[k].kids[i].pos = p
  IN  g.nodes[k].kids[i].id

Obs(g, k) == IF k = 0 THEN <<"bot">>
             ELSE IF g.nodes[k].isref THEN <<"dangling">>
             ELSE <<g.nodes[k].lab, PosSet(g, k)>>
\* two dangling references agree if they are written alike or resolve alike
DanglingAgree(g, a, b) ==
  LET ra == g.nodes[a].ref  rb == g.nodes[b].ref
      ua == Resolve(g.docs[g.nodes[a].doc].url, ra)
      ub == Resolve(g.docs[g.nodes[b].doc].url, rb)
      \* (the query is left out of this comparison: the library lets a relative reference inherit
      \* the query of its base document - pinned by the repository's normalizer tests - and the
      \* properties say nothing about queries of unresolvable references)
      samePlace == ua.scheme = ub.scheme /\ ua.host = ub.host /\ ua.segs = ub.segs
  IN  ra = rb \/ (samePlace /\ ua.ptr = ub.ptr)
PairOK(g, tm, pr) ==
  LET a == Deref(g, tm, pr[1])  b == Deref(g, tm, pr[2])
  IN  /\ Obs(g, a) = Obs(g, b)
      /\ (a # 0 /\ b # 0 /\ g.nodes[a].isref /\ g.nodes[b].isref) => DanglingAgree(g, a, b)

PairSucc(g, tm, pr) ==
  LET a == Deref(g, tm, pr[1])
      b == Deref(g, tm, pr[2])
  IN  IF a = 0 \/ b = 0 \/ Obs(g, a) # Obs(g, b) THEN {}
      ELSE {<<Child(g, a, p), Child(g, b, p)>> : p \in PosSet(g, a)}

RECURSIVE ReachPairs(_, _, _, _)
ReachPairs(g, tm, seen, fr) ==
  IF fr = {} THEN seen
  ELSE LET seen2 == seen \cup fr
       IN  ReachPairs(g, tm, seen2, (UNION {PairSucc(g, tm, pr) : pr \in fr}) \ seen2)

\* Trees are deterministic (one child per position), so "all reachable pairs
\* have equal observations" is the greatest bisimulation.
Bisimilar(g, tm, a, b) ==
  \A pr \in ReachPairs(g, tm, {}, {<<a, b>>}) : PairOK(g, tm, pr)

\* first pair at which the two unfoldings differ (for diagnostics)
BadPairs(g, tm, a, b) ==
  {pr \in ReachPairs(g, tm, {}, {<<a, b>>}) : ~PairOK(g, tm, pr)}

\* ------------------------------------------------------------ cycles
\* successor relation of the INPUT graph: owned children and $ref targets
InSucc(g, tmIn, k) ==
  IF g.nodes[k].isref THEN (IF tmIn[k] = 0 THEN {} ELSE {tmIn[k]})
  ELSE {g.nodes[k].kids[i].id : i \in 1..Len(g.nodes[k].kids)}

RECURSIVE ReachFrom(_, _, _, _)
ReachFrom(g, tmIn, seen, fr) ==
  IF fr = {} THEN seen
  ELSE LET seen2 == seen \cup fr
       IN  ReachFrom(g, tmIn, seen2,
                     (UNION {InSucc(g, tmIn, k) : k \in fr}) \ seen2)

\* nodes reachable from k in one or more steps
ReachPlus(g, tmIn, k) == ReachFrom(g, tmIn, {}, InSucc(g, tmIn, k))
OnCycle(g, tmIn, k) == k # 0 /\ k \in ReachPlus(g, tmIn, k)

\* ------------------------------------------------------------ unfolding size
\* number of node visits of the unfolding from k in which no $ref target repeats on a
\* path (the work bound of C04); fuel guards against ill-formed input
RECURSIVE UnfoldSz(_, _, _, _, _), UnfoldKids(_, _, _, _, _, _)
UnfoldSz(g, tmIn, k, ps, fuel) ==
  IF fuel = 0 THEN 1
  ELSE IF g.nodes[k].isref
       THEN LET t == tmIn[k]
            IN  IF t = 0 \/ t \in ps THEN 1
                ELSE 1 + UnfoldSz(g, tmIn, t, ps \cup {t}, fuel - 1)
       ELSE 1 + UnfoldKids(g, tmIn, g.nodes[k].kids, 1, ps, fuel - 1)
UnfoldKids(g, tmIn, kids, i, ps, fuel) ==
  IF i > Len(kids) THEN 0
  ELSE UnfoldSz(g, tmIn, kids[i].id, ps, fuel) + UnfoldKids(g, tmIn, kids, i + 1, ps, fuel)

InputTargetMap(g) == [k \in NodeIds(g) |-> IF g.docs[g.nodes[k].doc].out THEN 0
                                           ELSE TargetInInput(g, k)]
=============================================================================
