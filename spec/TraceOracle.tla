---------------------------- MODULE TraceOracle ----------------------------
(***************************************************************************)
(* Validation of event traces recorded from ANY program linked with the    *)
(* verif build of the package - in particular the package's own test       *)
(* suite, run with VERIF_TRACE_FILE set: every library call the existing   *)
(* tests make (on the azure, k8s, bitbucket ... fixtures) becomes a trace  *)
(* that must be a behaviour of the cycle-cut and cache discipline of       *)
(* Expander.tla (ExpTrace!Validate).                                       *)
(***************************************************************************)
EXTENDS ExpTrace, TLC, Json, SequencesExt

CONSTANTS ObsFile, VerdictFile
Observations == ndJsonDeserialize(ObsFile)

Verdict(o) ==
  LET tr == Validate(o.events)
  IN  [ id |-> o.id,
        conf |-> IF tr.ok THEN "pass" ELSE "fail",
        confat |-> tr.at, confwhy |-> tr.why,
        c18step |-> IF tr.refetch THEN "fail" ELSE "pass",
        ncirc |-> tr.ncirc ]
ASSUME ndJsonSerialize(VerdictFile, [i \in 1..Len(Observations) |-> Verdict(Observations[i])])
VARIABLE x
Init == x = 0
Next == UNCHANGED x
=============================================================================
