---------------------------- MODULE CodecCases ----------------------------
(***************************************************************************)
(* Abstract documents over the Swagger 2.0 / JSON-Schema draft-04          *)
(* vocabulary (Vocabulary.tla, generated from the shipped meta-schemas):   *)
(* the inputs of the codec properties C01, C06, C07, C14, C15, C19.        *)
(*                                                                         *)
(* A case: [fam, chain, kind, fl, members]                                 *)
(*   kind/fl  the focus object kind and its flavour (parameter location,   *)
(*            security scheme type)                                        *)
(*   members  Seq([name, vt, cls]) - the members under test; the           *)
(*            concretiser adds the members the kind requires               *)
(*   chain    Seq([kind, fl, kw, how]) - the objects the focus object is   *)
(*            nested in, outermost first                                   *)
(* Value classes (cls) per value type (vt) describe what is written in the *)
(* JSON source; NFClasses are those the normal form of C01 admits.         *)
(***************************************************************************)
EXTENDS Vocabulary, TLC, Json, SequencesExt

CONSTANTS Families,     \* subset of {"single","pair","ext","chain","wild"} to export
          MaxChain,     \* maximal length of a nesting chain
          PairKinds,    \* kinds for which all pairs of optional keywords are generated
          OutFile

\* every value class the concretiser can write for any keyword (C07 uses all of them everywhere)
AllClasses == {"null", "true", "false", "zero", "num", "emptyStr", "str", "emptyArr", "strArr", "objArr", "mixedArr",
               "emptyObj", "obj"}
\* free-form payload shapes without null / empty parts
Payloads == {"str", "num", "zero", "true", "false", "strArr", "objArr", "obj", "nested"}

KidKind(vt) == IF Len(vt) > 5 /\ SubSeq(vt, 1, 5) = "kind:" THEN SubSeq(vt, 6, Len(vt))
               ELSE IF Len(vt) > 4 /\ SubSeq(vt, 1, 4) = "map:" THEN SubSeq(vt, 5, Len(vt))
               ELSE IF Len(vt) > 5 /\ SubSeq(vt, 1, 5) = "list:" THEN SubSeq(vt, 6, Len(vt))
               ELSE ""

\* classes of the normal form, per value type; req: the kind requires the member
NFClasses(vt, req) ==
  CASE vt = "str"  -> IF req THEN {"str", "emptyStr"} ELSE {"str"}
    [] vt = "bool" -> {"true"}
    [] vt = "num"  -> {"zero", "frac", "int", "neg"}
    [] vt = "int"  -> {"zero", "int"}
    [] vt = "any"  -> Payloads
    [] vt = "anys" -> {"strArr", "mixedArr"}
    [] vt = "strs" -> {"strArr"}
    [] vt = "typeUnion" -> {"str", "strArr2"}
    [] vt = "schemaOrArray" -> {"schema", "schemaList1", "schemaList2", "refObj"}
    [] vt = "schemaOrBool" -> {"schema", "true", "false", "refObj"}
    [] vt = "map:schemaOrStrings" -> {"depSchema", "depStrs", "depBoth"}
    [] vt = "security" -> {"sec1", "secEmptyScopes", "secTwo"}
    [] vt = "scopes" -> IF req THEN {"scopes1", "scopesEmpty"} ELSE {"scopes1"}
    [] vt = "anymap" -> {"ex1", "ex2"}
    [] vt = "ref" -> {"refLocal", "refRemote"}
    [] vt = "kind:paths" -> IF req THEN {"obj", "emptyObj"} ELSE {"obj"}
    [] vt = "kind:schema" -> {"obj", "refObj"}            \* a schema may be given as a reference
    [] vt = "kind:responses" -> {"obj"}
    [] OTHER -> IF KidKind(vt) = "" THEN {"str"}
                ELSE IF SubSeq(vt, 1, 4) = "map:" THEN {"map1", "map2"}
                ELSE IF SubSeq(vt, 1, 5) = "list:" THEN {"list1", "list2"}
                ELSE {"obj"}

AllKeywords(k, fl) == MetaKeywords(k, fl) \cup LibraryKeywords(k, fl)
Free(k, fl) == AllKeywords(k, fl) \ FixedOf(k, fl)
Optional(k, fl) == Free(k, fl) \ RequiredOf(k, fl)
M(k, kw, cls) == [name |-> kw, vt |-> VTypeOf(k, kw), cls |-> cls]
Case(fam, chain, k, fl, ms) == [fam |-> fam, chain |-> chain, kind |-> k, fl |-> fl, members |-> ms]

\* a $ref stands alone in its object
RefKinds == {"schema", "parameter", "response", "pathItem", "items"}

Singles ==
  UNION {UNION {{Case("single", <<>>, kf[1], kf[2], <<M(kf[1], kw, c)>>)
                  : c \in NFClasses(VTypeOf(kf[1], kw), kw \in RequiredOf(kf[1], kf[2]))}
               : kw \in Free(kf[1], kf[2])}
          : kf \in KindFlavours}

PairsOf(k, fl) ==
  LET O == {kw \in Optional(k, fl) : VTypeOf(k, kw) # "ref"}
      First(kw) == CHOOSE c \in NFClasses(VTypeOf(k, kw), FALSE) : TRUE
  IN  {Case("pair", <<>>, k, fl, SetToSeq({M(k, kw, First(kw)) : kw \in P}))
        : P \in {{a, b} : a \in O, b \in O} \ {{a} : a \in O}}
Pairs == UNION {PairsOf(kf[1], kf[2]) : kf \in {x \in KindFlavours : x[1] \in PairKinds}}

\* ---- combinations: strided subsets of the optional keywords of a kind with the value classes in rotation
\* (stride 1: every optional keyword at once); deterministic, a few per kind and flavour
CombosOf(k, fl) ==
  LET O  == {kw \in Optional(k, fl) : VTypeOf(k, kw) # "ref"}
      ks == SetToSeq(O)
      Cls(i, t) == LET cs == SetToSeq(NFClasses(VTypeOf(k, ks[i]), FALSE)) IN cs[((i + t) % Len(cs)) + 1]
      Sub(s, t) == {i \in 1..Len(ks) : i % s = t}
  IN  {Case("combo", <<>>, k, fl, SetToSeq({M(k, ks[i], Cls(i, st[1] + st[2])) : i \in Sub(st[1], st[2])}))
        : st \in {x \in (1..4) \X (0..3) : x[2] < x[1] /\ Cardinality(Sub(x[1], x[2])) >= 2}}
Combos == UNION {CombosOf(kf[1], kf[2]) : kf \in KindFlavours}

\* extension names in lower and upper case (both are extensions: the prefix test folds case);
\* unknown schema keywords, among them names starting with "$" (draft-06 style)
ExtNames == {"x-ext", "x-", "x-camelCase"}
UnknownNames == {"unknownKeyword", "$comment", "$id", "xnot-ext", "-x-", "Definitions2", ""}
\* extension names that tools give a meaning to (the library itself reads x-order): the codec must carry them verbatim
WellKnownExt == {"x-nullable", "x-order", "x-example", "x-deprecated", "x-omitempty"}
Exts ==
  UNION {{Case("ext", <<>>, kf[1], kf[2], <<[name |-> n, vt |-> "any", cls |-> c]>>) : c \in Payloads, n \in {"x-ext"}}
          : kf \in {x \in KindFlavours : AdmitsExt(x[1], x[2])}}
  \cup UNION {{Case("ext", <<>>, kf[1], kf[2], <<[name |-> n, vt |-> "any", cls |-> "str"]>>) : n \in ExtNames \ {"x-ext"}}
          : kf \in {x \in KindFlavours : AdmitsExt(x[1], x[2])}}
  \cup UNION {{Case("ext", <<>>, kf[1], kf[2], <<[name |-> n, vt |-> "any", cls |-> c]>>) : n \in WellKnownExt, c \in {"true", "zero", "str"}}
          : kf \in {x \in KindFlavours : AdmitsExt(x[1], x[2])}}
  \cup {Case("ext", <<>>, "schema", "", <<[name |-> n, vt |-> "any", cls |-> c]>>) : c \in Payloads, n \in UnknownNames}
  \* a schema $ref with one sibling member (legal JSON, and what a "$ref with a description / readOnly / example" looks like)
  \cup {Case("ext", <<>>, "schema", "", <<M("schema", "$ref", "refLocal"), M("schema", kw, CHOOSE c \in NFClasses(VTypeOf("schema", kw), FALSE) : TRUE)>>)
         : kw \in {k \in Optional("schema", "") : VTypeOf("schema", k) # "ref"}}
  \cup {Case("ext", <<>>, "schema", "", <<M("schema", "$ref", "refRemote"), [name |-> n, vt |-> "any", cls |-> "str"]>>) : n \in {"unknownKeyword", "x-ext"}}
  \cup {Case("ext", <<>>, "schema", "", <<[name |-> "x-ext", vt |-> "any", cls |-> "str"],
                                            [name |-> "unknownKeyword", vt |-> "any", cls |-> "obj"]>>)}

\* ---- nesting: the edges of the vocabulary graph
EdgeHows(vt) ==
  CASE vt = "schemaOrArray" -> {<<"single", "schema">>, <<"listelem", "schema">>}
    [] vt = "schemaOrBool" -> {<<"single", "schema">>}
    [] vt = "map:schemaOrStrings" -> {<<"mapval", "schema">>}
    [] OTHER -> IF KidKind(vt) = "" THEN {}
                ELSE IF SubSeq(vt, 1, 4) = "map:" THEN {<<"mapval", KidKind(vt)>>}
                ELSE IF SubSeq(vt, 1, 5) = "list:" THEN {<<"listelem", KidKind(vt)>>}
                ELSE {<<"single", KidKind(vt)>>}
\* edges out of <<k, fl>>: [kind, fl, kw, how, to]
EdgesFrom(k, fl) ==
  (UNION {{[kind |-> k, fl |-> fl, kw |-> kw, how |-> h[1], to |-> h[2]] : h \in EdgeHows(VTypeOf(k, kw))}
           : kw \in Free(k, fl)})
  \cup (IF k = "paths" THEN {[kind |-> k, fl |-> fl, kw |-> "/path", how |-> "mapval", to |-> "pathItem"]} ELSE {})
  \cup (IF k = "responses" THEN {[kind |-> k, fl |-> fl, kw |-> c, how |-> "single", to |-> "response"] : c \in {"200", "default"}}
        ELSE {})
FlavoursOf(k) == {kf[2] : kf \in {x \in KindFlavours : x[1] = k}}

\* chains of exactly n edges ending in <<k, fl>>
RECURSIVE ChainsTo(_, _, _)
ChainsTo(k, fl, n) ==
  IF n = 0 THEN {<<>>}
  ELSE UNION {UNION {{Append(c, [kind |-> e.kind, fl |-> e.fl, kw |-> e.kw, how |-> e.how]) : c \in ChainsTo(e.kind, e.fl, n - 1)}
                       : e \in {x \in EdgesFrom(kf[1], kf[2]) : x.to = k}}
               : kf \in KindFlavours}
\* what is put at the end of a chain: one representative member per focus kind and flavour
Rep(k, fl) ==
  LET O == {kw \in Optional(k, fl) : VTypeOf(k, kw) \in {"str", "num", "int", "bool"}}
  IN  IF O = {} THEN <<>>
      ELSE LET kw == CHOOSE x \in O : TRUE
           IN  <<M(k, kw, CHOOSE c \in NFClasses(VTypeOf(k, kw), FALSE) : TRUE)>>
Chains ==
  UNION {UNION {{Case("chain", c, kf[1], kf[2], Rep(kf[1], kf[2])) : c \in ChainsTo(kf[1], kf[2], n)} : n \in 1..MaxChain}
          : kf \in KindFlavours}

\* ---- anything goes (C07): every keyword with every value class, right or wrong
Wild ==
  UNION {UNION {{Case("wild", <<>>, kf[1], kf[2], <<M(kf[1], kw, c)>>) : c \in AllClasses} : kw \in Free(kf[1], kf[2])}
          : kf \in KindFlavours}

\* ---- free-form payloads with nulls, empty containers and nested mixtures (C14, C07)
PayloadsX == {"withNull", "withEmpty", "emptyArr", "emptyObj", "mix", "nullOnly"}
AnyTyped(k, fl) == {kw \in Free(k, fl) : VTypeOf(k, kw) \in {"any", "anys", "anymap"}}
PayloadCases ==
  UNION {UNION {{Case("payload", <<>>, kf[1], kf[2], <<[name |-> kw, vt |-> "any", cls |-> c]>>) : c \in PayloadsX}
                 : kw \in AnyTyped(kf[1], kf[2]) \cup (IF AdmitsExt(kf[1], kf[2]) THEN {"x-ext"} ELSE {})}
          : kf \in KindFlavours}
  \* "no security at all" written explicitly: an empty list of requirements (distinct from an absent member)
  \* and requirements that name no scheme at all ({}: "anonymous access is fine too"), alone and next to others
  \cup UNION {{Case("payload", <<>>, kf[1], kf[2], <<[name |-> "security", vt |-> "security", cls |-> c]>>) : c \in {"secNone", "secAnon", "secAnonMixed"}}
          : kf \in {x \in KindFlavours : "security" \in Free(x[1], x[2])}}

\* ---- whole, valid Swagger documents (C19): every single-member case of every kind, placed at
\* the end of every nesting chain that starts at the document root
\* the spine: the vocabulary edges along which whole documents are grown from the root
Spine == {<<"swagger", "info">>, <<"info", "contact">>, <<"info", "license">>, <<"swagger", "externalDocs">>, <<"swagger", "tags">>,
          <<"tag", "externalDocs">>, <<"swagger", "paths">>, <<"paths", "/path">>, <<"pathItem", "get">>, <<"pathItem", "parameters">>,
          <<"operation", "parameters">>, <<"operation", "responses">>, <<"operation", "externalDocs">>, <<"responses", "200">>,
          <<"responses", "default">>, <<"swagger", "responses">>, <<"swagger", "parameters">>, <<"response", "headers">>,
          <<"response", "schema">>, <<"parameter", "items">>, <<"parameter", "schema">>, <<"header", "items">>, <<"items", "items">>,
          <<"swagger", "definitions">>, <<"schema", "properties">>, <<"schema", "items">>, <<"schema", "xml">>,
          <<"schema", "externalDocs">>, <<"schema", "allOf">>, <<"schema", "additionalProperties">>,
          <<"swagger", "securityDefinitions">>}
SpineFrom(k, fl) == {e \in EdgesFrom(k, fl) : <<e.kind, e.kw>> \in Spine}
\* grow chains forward from the root; a chain never uses the same (kind, keyword) twice
\* state of the growth: <<chain, kind, fl>>
RECURSIVE Grow(_, _, _)
Grow(done, frontier, n) ==
  IF n = 0 \/ frontier = {} THEN done \cup frontier
  ELSE LET next == UNION {UNION {{<<Append(st[1], [kind |-> e.kind, fl |-> e.fl, kw |-> e.kw, how |-> e.how]), e.to, f2>>
                                   : f2 \in FlavoursOf(e.to)}
                                 : e \in {x \in SpineFrom(st[2], st[3]) :
                                            /\ \A i \in 1..Len(st[1]) : ~(st[1][i].kind = x.kind /\ st[1][i].kw = x.kw)
                                            \* at most one schema-in-schema and one items-in-items step
                                            /\ (x.kind = x.to => \A i \in 1..Len(st[1]) : st[1][i].kind # x.kind \/ i = Len(st[1]) + 1
                                                                   \/ ~(i < Len(st[1]) /\ st[1][i + 1].kind = x.kind))}}
                          : st \in frontier}
       IN  Grow(done \cup frontier, next, n - 1)
Grown == Grow({}, {<<(<<>>), "swagger", "">>}, MaxChain)
\* values that are empty (not normal form) yet may be valid: the validator decides which of them are used
EmptyClasses(vt) ==
  (IF vt \in {"schemaOrArray", "schemaOrBool", "anymap", "scopes", "any", "map:schemaOrStrings"}
      \/ (Len(vt) > 5 /\ SubSeq(vt, 1, 5) = "kind:") \/ (Len(vt) > 4 /\ SubSeq(vt, 1, 4) = "map:") THEN {"emptyObj"} ELSE {})
  \cup (IF vt \in {"strs", "anys", "security", "schemaOrArray"} \/ (Len(vt) > 5 /\ SubSeq(vt, 1, 5) = "list:") THEN {"emptyArr"} ELSE {})
  \cup (IF vt = "str" THEN {"emptyStr"} ELSE {}) \cup (IF vt = "bool" THEN {"false"} ELSE {})
SingleMembers(k, fl) ==
  UNION {{<<M(k, kw, c)>> : c \in NFClasses(VTypeOf(k, kw), kw \in RequiredOf(k, fl)) \cup (IF VTypeOf(k, kw) = "ref" THEN {} ELSE EmptyClasses(VTypeOf(k, kw)))}
          : kw \in Free(k, fl)}
  \cup (IF AdmitsExt(k, fl) THEN {<<[name |-> "x-ext", vt |-> "any", cls |-> "obj"]>>} ELSE {})
\* a required text member at its empty value next to every other single member (the encoders treat "required" and
\* "empty" in ways that depend on what else the object holds)
ReqEmptyPairs(k, fl) ==
  LET R == {kw \in RequiredOf(k, fl) \cap Free(k, fl) : VTypeOf(k, kw) = "str"}
  IN  UNION {{<<M(k, r, "emptyStr")>> \o ms : ms \in {x \in SingleMembers(k, fl) : x[1].name # r /\ x[1].cls \in NFClasses(x[1].vt, FALSE)}} : r \in R}
ValidCases == UNION {{Case("valid", st[1], st[2], st[3], ms) : ms \in SingleMembers(st[2], st[3]) \cup ReqEmptyPairs(st[2], st[3])} : st \in Grown}

\* ---- odd strings where a URL or a reference is expected (C07)
OddStrings == {"hash", "hashslash", "dblhash", "badpct", "badhost", "noscheme", "space", "ctl", "tilde2", "onlyquery", "longfrag",
               "urnbackslash", "queryquote", "urnplain"}
UrlLike(k, fl) == {kw \in Free(k, fl) : kw \in {"$ref", "$schema", "id", "url", "termsOfService", "authorizationUrl", "tokenUrl"}}
OddCases ==
  UNION {UNION {{Case("odd", <<>>, kf[1], kf[2], <<[name |-> kw, vt |-> "oddstr", cls |-> c]>>) : c \in OddStrings}
                 : kw \in UrlLike(kf[1], kf[2])}
          : kf \in KindFlavours}

\* ---- odd member names in the maps of the vocabulary (not normal form: judged for totality, fixed point,
\* determinism, look-ups): status codes that are numbers but not three digits, path keys without the
\* leading slash, the empty name in every map
OddRespKeys == {"-1", "-12", "+200", "007", "0x10", "1e2", "99999999999999999999", "", " 200", "2000"}
OddPathKeys == {"", "nolead", "x-", "X-ext", "/", "//"}
MapTyped(k, fl) == {kw \in Free(k, fl) : LET vt == VTypeOf(k, kw) IN Len(vt) > 4 /\ SubSeq(vt, 1, 4) = "map:"}
OddKeyCases ==
  \* dependencies whose value is neither a schema nor a non-empty list of names
  {Case("oddkeys", <<>>, "schema", "", <<[name |-> "dependencies", vt |-> "map:schemaOrStrings", cls |-> c]>>)
     : c \in {"depEmptyList", "depNull", "depNumber", "depString", "depEmptyObj"}}
  \cup
  {Case("oddkeys", <<>>, "responses", "", <<[name |-> n, vt |-> "kind:response", cls |-> "obj"]>>) : n \in OddRespKeys}
  \cup {Case("oddkeys", <<>>, "paths", "", <<[name |-> n, vt |-> "kind:pathItem", cls |-> "obj"]>>) : n \in OddPathKeys}
  \cup UNION {{Case("oddkeys", <<>>, kf[1], kf[2], <<[name |-> kw, vt |-> VTypeOf(kf[1], kw), cls |-> "mapEmptyKey"]>>) : kw \in MapTyped(kf[1], kf[2])}
               : kf \in KindFlavours}

\* ---- extension names in upper case: the meta-schema pattern ^x- does not admit them (not normal
\* form), the library reads them as extensions; checked for determinism / fixed point only
ExtCaseCases ==
  UNION {{Case("extcase", <<>>, kf[1], kf[2], <<[name |-> "X-Upper", vt |-> "any", cls |-> "str"]>>),
          \* ... next to a member that a decode / encode round drops and whose text looks like the start of an extension name
          Case("extcase", <<>>, kf[1], kf[2], <<[name |-> "X-Upper", vt |-> "any", cls |-> "true"], [name |-> "junk", vt |-> "any", cls |-> "xdashStr"]>>),
          Case("extcase", <<>>, kf[1], kf[2], <<[name |-> "x-both", vt |-> "any", cls |-> "str"], [name |-> "X-Both", vt |-> "any", cls |-> "num"]>>)}
          : kf \in {x \in KindFlavours : AdmitsExt(x[1], x[2])}}

\* ---- member names that differ from a keyword only by letter case (the worker flips the case):
\* the standard decoder reads them as the keyword; C07 excepts them from the fixed-point demand,
\* they are checked for totality only
CaseFoldCases == {[c EXCEPT !.fam = "casefold"] : c \in Singles}

Export == (IF "odd" \in Families THEN OddCases \cup ExtCaseCases \cup CaseFoldCases \cup OddKeyCases ELSE {}) \cup
          (IF "valid" \in Families THEN ValidCases ELSE {}) \cup
          (IF "payload" \in Families THEN PayloadCases ELSE {}) \cup
          (IF "single" \in Families THEN Singles ELSE {})
          \cup (IF "pair" \in Families THEN Pairs ELSE {})
          \cup (IF "combo" \in Families THEN Combos ELSE {})
          \cup (IF "ext" \in Families THEN Exts ELSE {})
          \cup (IF "chain" \in Families THEN Chains ELSE {})
          \cup (IF "wild" \in Families THEN Wild ELSE {})

\* ---- laws of the enumeration itself
\* every keyword the meta-schemas define for a kind occurs in some exported single
CoversVocabulary ==
  "single" \in Families =>
     \A kf \in KindFlavours : \A kw \in Free(kf[1], kf[2]) :
        \E c \in Singles : c.kind = kf[1] /\ c.fl = kf[2] /\ c.members[1].name = kw
\* required members are known keywords
RequiredKnown == \A kf \in KindFlavours : RequiredOf(kf[1], kf[2]) \subseteq AllKeywords(kf[1], kf[2])

ASSUME /\ RequiredKnown /\ CoversVocabulary
       /\ PrintT(<<"NCASES", Cardinality(Export)>>)
       /\ ndJsonSerialize(OutFile, SetToSeq(Export))
VARIABLE x
Init == x = 0
Next == UNCHANGED x
=============================================================================
