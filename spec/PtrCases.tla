----------------------------- MODULE PtrCases -----------------------------
(***************************************************************************)
(* C05, pointer layer: member names over an alphabet of characters that    *)
(* need escaping, with their RFC 6901 escaping ("~" -> "~0", "/" -> "~1")  *)
(* and the percent-encoding a URI fragment needs on top of it.  TLC checks *)
(* that decoding inverts encoding (in the right order: "~01" is "~1", not  *)
(* "/") and exports, for every name, the fragment text to be written in a  *)
(* $ref.  The worker builds one document whose definitions / parameters /  *)
(* responses carry all these names and resolves every reference through    *)
(* the real package.                                                       *)
(***************************************************************************)
EXTENDS Naturals, Sequences, FiniteSets, TLC, Json, SequencesExt

CONSTANTS MaxLen, OutFile

Chars == {"x", "/", "~", "0", "1", "%", "#", "?", " ", "{"}

RECURSIVE Words(_)
Words(n) == IF n = 0 THEN {<<>>}
            ELSE Words(n - 1) \cup {Append(w, c) : w \in {v \in Words(n - 1) : Len(v) = n - 1}, c \in Chars}
\* names in which "%" is followed by two hexadecimal digits: text that looks percent-encoded but is
\* the literal member name (a second percent-decoding anywhere on the way would read "%41" as "A",
\* "%2541" as "%41", "%20" as " "), together with the names such a decoding would yield (the twins)
Hex == {"0", "1", "2", "4", "5", "A", "f"}
PctWords == {<<"%", a, b>> : a, b \in Hex}
            \cup {<<"x", "%", "4", "1">>, <<"%", "4", "1", "x">>, <<"%", "2", "5", "4", "1">>, <<"%", "%", "4", "1">>,
                  <<"%", "2", "5", "2", "5">>, <<"~", "%", "2", "F">>, <<"/", "%", "7", "e", "1">>}
            \cup {<<"A">>, <<"x", "A">>, <<"A", "x">>, <<"%", "A">>, <<"!">>, <<"$">>}
Names == (Words(MaxLen) \ {<<>>}) \cup PctWords

\* RFC 6901 section 3/4
EscChar(c) == IF c = "~" THEN <<"~", "0">> ELSE IF c = "/" THEN <<"~", "1">> ELSE <<c>>
RECURSIVE Esc(_)
Esc(w) == IF w = <<>> THEN <<>> ELSE EscChar(Head(w)) \o Esc(Tail(w))
\* decoding: "~1" -> "/" and "~0" -> "~", scanning left to right (one pass)
RECURSIVE Unesc(_)
Unesc(w) == IF w = <<>> THEN <<>>
            ELSE IF Len(w) >= 2 /\ w[1] = "~" /\ w[2] = "0" THEN <<"~">> \o Unesc(SubSeq(w, 3, Len(w)))
            ELSE IF Len(w) >= 2 /\ w[1] = "~" /\ w[2] = "1" THEN <<"/">> \o Unesc(SubSeq(w, 3, Len(w)))
            ELSE <<Head(w)>> \o Unesc(Tail(w))
\* the wrong order of the two replacements, as a check that the law below is not vacuous
RECURSIVE Replace(_, _, _)
Replace(w, a, b) == IF w = <<>> THEN <<>>
                    ELSE IF Len(w) >= 2 /\ w[1] = "~" /\ w[2] = a THEN <<b>> \o Replace(SubSeq(w, 3, Len(w)), a, b)
                    ELSE <<Head(w)>> \o Replace(Tail(w), a, b)
UnescWrongOrder(w) == Replace(Replace(w, "0", "~"), "1", "/")

\* URI fragment layer: characters that may not appear raw in a fragment
PctChar(c) == IF c = "%" THEN "%25" ELSE IF c = "#" THEN "%23" ELSE IF c = " " THEN "%20"
              ELSE IF c = "{" THEN "%7B" ELSE c
RECURSIVE Join(_)
Join(w) == IF w = <<>> THEN "" ELSE Head(w) \o Join(Tail(w))
Frag(w) == Join([i \in 1..Len(Esc(w)) |-> PctChar(Esc(w)[i])])

LawRoundTrip == \A w \in Names : Unesc(Esc(w)) = w
LawOrderMatters == \E w \in Names : UnescWrongOrder(Esc(w)) # w
LawInjective == \A v, w \in Names : Esc(v) = Esc(w) => v = w

Cases == {[name |-> Join(w), frag |-> Frag(w)] : w \in Names}

ASSUME /\ LawRoundTrip /\ LawInjective /\ (MaxLen >= 2 => LawOrderMatters)
       /\ PrintT(<<"NNAMES", Cardinality(Cases)>>)
       /\ ndJsonSerialize(OutFile, SetToSeq(Cases))
VARIABLE x
Init == x = 0
Next == UNCHANGED x
=============================================================================
