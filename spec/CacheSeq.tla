----------------------------- MODULE CacheSeq -----------------------------
(***************************************************************************)
(* C18, sequences of calls through ONE caller-supplied resolution cache.   *)
(*                                                                         *)
(* A caller that keeps a cache over several expansions must get, for every *)
(* call, what the same call gives without any cache (transparency), and    *)
(* no document that an earlier call of the sequence was delivered is       *)
(* requested again (fetched at most once).                                 *)
(*                                                                         *)
(* The model: the cache is a set of (location -> content) entries that     *)
(* only grows by what the loader delivers; a call's answer is a function   *)
(* of the call alone.  TLC enumerates every sequence over the pool of      *)
(* calls (gen mode) and judges the recorded runs (judge mode):             *)
(*   Transparent  - step i of a run in any cache mode = the solo answer    *)
(*   NeverAgain   - reuse mode: a location delivered in step j is not      *)
(*                  requested in a step i > j, nor twice within a step     *)
(* The pool (harness/cmd/worker/cacheseq.go): schemas that are their own   *)
(* root with local definitions (same pointer, different content), two      *)
(* schemas carrying the SAME id with different content, references into    *)
(* another document, a document whose whole content is null, a schema with *)
(* an anchor-style id, a document that does not decode.                    *)
(***************************************************************************)
EXTENDS Naturals, Sequences, FiniteSets, TLC, Json, SequencesExt

CONSTANTS MaxLen, Mode, InFile, OutFile

Pool == {"A1", "A2", "B", "B2", "C1", "C2", "N", "W", "V", "X", "R", "R2", "I1", "I2", "E"}
Apis == {"ExpandSchema", "WithBasePath"}

RECURSIVE Seqs(_)
Seqs(n) == IF n = 0 THEN {<<>>} ELSE LET S == Seqs(n - 1) IN S \cup {Append(s, c) : s \in {x \in S : Len(x) = n - 1}, c \in Pool}
Cases == {[seq |-> s, api |-> a] : s \in Seqs(MaxLen) \ {<<>>}, a \in Apis}

\* ---- the design, as a state machine: the cache only grows by deliveries, answers do not depend on it
VARIABLES cache, answers, n
Answer(c) == c                                  \* abstractly: the answer is determined by the call
Init == cache = {} /\ answers = <<>> /\ n = 0
Call(c) == /\ n < MaxLen /\ n' = n + 1
           /\ cache' = cache \cup {c}            \* what the call had to fetch
           /\ answers' = Append(answers, Answer(c))
Next == \E c \in Pool : Call(c)
Spec == Init /\ [][Next]_<<cache, answers, n>>
CacheMonotone == [][cache \subseteq cache']_<<cache, answers, n>>
AnswersIndependent == \A i \in 1..Len(answers) : answers[i] \in Pool

\* ---- judging recorded runs
Observations == IF Mode = "judge" THEN ndJsonDeserialize(InFile) ELSE <<>>
Transparent(o) == \A i \in 1..Len(o.steps) : o.steps[i].out = o.steps[i].solo
NeverAgain(o) ==
  o.mode = "reuse" =>
    \A i \in 1..Len(o.steps) :
       LET reqs == o.steps[i].loads IN
       /\ \A a, b \in 1..Len(reqs) : a # b => reqs[a] # reqs[b]
       /\ \A j \in 1..(i - 1) : \A a \in 1..Len(reqs) :
             ~(\E b \in 1..Len(o.steps[j].delivered) : o.steps[j].delivered[b] = reqs[a])
Verdict(o) == [id |-> o.id,
               c18seqtransparent |-> IF Transparent(o) THEN "pass" ELSE "fail",
               c18seqonce |-> IF NeverAgain(o) THEN "pass" ELSE "fail"]

ASSUME Mode = "gen" => /\ PrintT(<<"NCASES", Cardinality(Cases)>>) /\ ndJsonSerialize(OutFile, SetToSeq(Cases))
ASSUME Mode = "judge" => ndJsonSerialize(OutFile, [i \in 1..Len(Observations) |-> Verdict(Observations[i])])
=============================================================================
