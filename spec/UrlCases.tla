----------------------------- MODULE UrlCases -----------------------------
(***************************************************************************)
(* C12: enumerator of (base, reference) pairs over a bounded alphabet of   *)
(* path segments, with the RFC 3986 resolution (Urls!Resolve) as the       *)
(* expected loader URL, and the oracle that judges what the real code      *)
(* handed to the document loader.                                          *)
(* Segment atoms (the Go concretiser owns their spelling):                 *)
(*   "a" plain, "bj" dotted name (b.json), "." and "..", "esc" a segment   *)
(*   with a percent-escape, "uni" a non-ASCII segment, "pct" a segment     *)
(*   holding a literal percent sign (written %25).                         *)
(***************************************************************************)
EXTENDS Urls, FiniteSets, TLC, Json, SequencesExt

CONSTANTS MaxSegs,      \* maximal number of path segments of a reference
          Mode,         \* "gen" | "judge"
          InFile, OutFile

Names   == {"a", "bj", "esc", "uni", "pct"}
SegAlph == Names \cup DotSegs

U(scheme, host, abs, segs, hasfrag, ptr) ==
  [scheme |-> scheme, host |-> host, abs |-> abs, segs |-> segs, query |-> "",
   hasfrag |-> hasfrag, ptr |-> ptr]

Bases == { U("file", "", TRUE, <<"root">>, FALSE, <<>>),
           U("file", "", TRUE, <<"d1", "root">>, FALSE, <<>>),
           U("file", "", TRUE, <<"d1", "d2", "root">>, FALSE, <<>>),
           U("http", "h1", TRUE, <<"d1", "root">>, FALSE, <<>>),
           U("https", "h1", TRUE, <<"d1", "d2", "root">>, FALSE, <<>>),
           \* an explicit port that is the default of the OTHER scheme: part of the authority, kept as written
           U("http", "h443", TRUE, <<"d1", "root">>, FALSE, <<>>),
           U("https", "h80", TRUE, <<"root">>, FALSE, <<>>) }

\* paths of 1..MaxSegs segments whose last segment is a name
RECURSIVE SegSeqs(_)
SegSeqs(n) == IF n = 0 THEN {<<>>}
              ELSE SegSeqs(n - 1) \cup {Append(s, x) : s \in {t \in SegSeqs(n - 1) : Len(t) = n - 1}, x \in SegAlph}
Paths == {s \in SegSeqs(MaxSegs) : s # <<>> /\ s[Len(s)] \in Names}

Frags == {<<FALSE, <<>>>>, <<TRUE, <<>>>>, <<TRUE, <<"p">>>>}

Refs == {U("", "", FALSE, p, f[1], f[2]) : p \in Paths, f \in Frags}                 \* relative
        \cup {U("", "", TRUE, p, f[1], f[2]) : p \in Paths, f \in Frags}              \* root-relative
        \cup {U("file", "", TRUE, p, f[1], f[2]) : p \in Paths, f \in Frags}          \* absolute file
        \cup {U("http", "h2", TRUE, p, f[1], f[2]) : p \in Paths, f \in Frags}        \* absolute http
        \cup {U("http", "h443", TRUE, p, <<FALSE, <<>>>>[1], <<>>) : p \in Paths}       \* absolute http, port 443
        \cup {U("", "", FALSE, <<>>, f[1], f[2]) : f \in Frags}                       \* empty / fragment-only

Cases == {[base |-> b, ref |-> r, want |-> NoFrag(Resolve(b, r))] : b \in Bases, r \in Refs}

\* ---- model laws of the oracle itself (checked by TLC when generating)
LawAbsolute == \A b \in Bases, r \in Refs :
                 (r.scheme # "" /\ ~HasDots(r)) => NoFrag(Resolve(b, r)) = NoFrag(r)
LawSelf     == \A b \in Bases, r \in Refs :
                 (r.segs = <<>> /\ ~r.abs /\ r.scheme = "") => SameDoc(Resolve(b, r), b)
LawNoDots   == \A c \in Cases : ~HasDots(c.want)
LawIdem     == \A c \in Cases : NoFrag(Resolve(c.base, c.want)) = c.want

\* ---- judging observations: [base, ref, want, got, neturl, outcome]
Observations == IF Mode = "judge" THEN ndJsonDeserialize(InFile) ELSE <<>>
SameUrl(u, v) == /\ u.scheme = v.scheme /\ u.host = v.host /\ u.abs = v.abs
                 /\ u.segs = v.segs /\ u.query = v.query
Verdict(o) ==
  [ id       |-> o.id,
    modelerr |-> ~SameUrl(o.neturl, o.want),          \* TLA+ oracle disagrees with net/url
    \* an empty reference ("" or "#") needs no document at all: no request is acceptable
    c12      |-> IF o.outcome = "noload"
                 THEN (IF o.ref.segs = <<>> /\ o.ref.ptr = <<>> /\ o.ref.scheme = "" THEN "pass" ELSE "fail")
                 \* second hop (the base is an intermediate document, already fetched): no further request is
                 \* right exactly when the reference designates that very document
                 ELSE IF o.outcome = "noload2" THEN (IF SameUrl(o.want, o.base) THEN "pass" ELSE "fail")
                 ELSE IF o.outcome # "loaded" THEN "fail"
                 ELSE IF SameUrl(o.got, o.want) /\ ~o.got.hasfrag THEN "pass" ELSE "fail" ]

ASSUME Mode = "gen" =>
         /\ LawAbsolute /\ LawSelf /\ LawNoDots /\ LawIdem
         /\ PrintT(<<"NCASES", Cardinality(Cases)>>)
         /\ ndJsonSerialize(OutFile, SetToSeq(Cases))
ASSUME Mode = "judge" =>
         ndJsonSerialize(OutFile, [i \in 1..Len(Observations) |-> Verdict(Observations[i])])

VARIABLE x
Init == x = 0
Next == UNCHANGED x
=============================================================================
