----------------------------- MODULE CycleCut -----------------------------
(***************************************************************************)
(* The cycle-cut decision of the expander (schemaLoader.isCircular):       *)
(* shared by the operational model (Expander.tla) and by the validation of *)
(* event traces recorded from the real code (ExpTrace.tla).                *)
(***************************************************************************)
EXTENDS Naturals, Sequences

SeqRange(s) == {s[i] : i \in 1..Len(s)}

\* a canonical reference is circular if it was memoised or is being unfolded on this path
IsCirc(m, ps, r)    == r \in m \/ r \in SeqRange(ps)
\* a reference found on the path (not merely in the memo) is memoised
MemoAfter(m, ps, r) == IF r \notin m /\ r \in SeqRange(ps) THEN m \cup {r} ELSE m
=============================================================================
