----------------------------- MODULE Expander -----------------------------
(***************************************************************************)
(* Operational model of spec.ExpandSpec (expander.go, schema_loader.go):   *)
(* a stack machine over an abstract reference graph (ExpCases) with        *)
(*   - the recursion stack of expandSchema / expandSchemaRef / deref,      *)
(*     each frame carrying its parentRefs list,                            *)
(*   - the memo of circular references (resolverContext.circulars),        *)
(*   - the per-call document cache and the loader call log,                *)
(*   - the options ContinueOnError (cont) and SkipSchemas (skip),          *)
(*   - Go's random map iteration order = free choice of the next entry /   *)
(*     child.                                                              *)
(* Canonical references are abstracted to the node they designate (the     *)
(* code keys parentRefs and the memo by canonical URL text; that the two   *)
(* coincide is what C02 / C12 check on the real code).                     *)
(*                                                                         *)
(* One action per critical step of the code:                               *)
(*   StartEntry    loops of ExpandSpec (expander.go:60-98)                 *)
(*   Cut           isCircular = TRUE in expandSchemaRef / deref /          *)
(*                 expandParameterOrResponse                               *)
(*   LoadDoc       schemaLoader.load: cache miss -> loader call -> Set     *)
(*   Follow        Resolve + transitiveResolver + recursive expandSchema   *)
(*   DerefHop      one hop of schemaLoader.deref (parameter, response,     *)
(*                 path item chains)                                       *)
(*   VisitChild    the for/if blocks of expandSchema, expandPathItem ...   *)
(*   KeepRef       SkipSchemas: the $ref is only rebased                   *)
(*   Fail / SkipBad  shouldStopOnError on an unresolvable reference        *)
(*   Return        function return                                         *)
(***************************************************************************)
EXTENDS ExpGraph, CycleCut, Json

CONSTANTS Cont, Skip,         \* options
          CaseFile           \* ndjson file of graphs written by the enumerator (GenExp)

CaseSeq == ndJsonDeserialize(CaseFile)
Cases == {CaseSeq[i] : i \in 1..Len(CaseSeq)}

VARIABLES g,       \* the reference graph (fixed after Init)
          todo,    \* root entries still to expand
          stack,   \* Seq of frames
          memo,    \* set of nodes (canonical refs) known to be circular
          cache,   \* set of documents in the resolution cache
          loads,   \* sequence of documents requested from the loader
          cuts,    \* set of <<holder, target>>: $refs left in the output
          kept,    \* set of refs left verbatim because unresolvable (cont) / skip mode
          steps,   \* work counter
          status   \* "running" | "ok" | "error"

vars == <<g, todo, stack, memo, cache, loads, cuts, kept, steps, status>>
Nn == Len(g)

Frame(n, ps, m) == [node |-> n, parents |-> ps, kids |-> {k \in 1..Nn : g[k].owner = n}, mode |-> m]
Top == stack[Len(stack)]
Pop == stack' = SubSeq(stack, 1, Len(stack) - 1)
ReplaceTop(f) == stack' = [stack EXCEPT ![Len(stack)] = f]

SectionRank(k) == CASE k = "s" -> 1 [] k = "p" -> 2 [] k = "r" -> 3 [] OTHER -> 4

\* isCircular (schema_loader.go:194): IsCirc / MemoAfter of CycleCut.tla

Init ==
  /\ g \in Cases
  /\ todo = IF Skip THEN {m \in Roots(g) : g[m].kind # "s"} ELSE Roots(g)
  /\ stack = <<>> /\ memo = {} /\ cache = {} /\ loads = <<>>
  /\ cuts = {} /\ kept = {} /\ steps = 0 /\ status = "running"

Running == status = "running"

\* ExpandSpec: definitions first, then parameters, responses, paths; any order inside a section
StartEntry ==
  /\ Running /\ stack = <<>> /\ todo # {}
  /\ \E e \in todo :
        /\ \A f \in todo : SectionRank(g[e].kind) <= SectionRank(g[f].kind)
        /\ todo' = todo \ {e}
        /\ stack' = <<[node |-> e, parents |-> <<>>,
                       kids |-> {k \in 1..Nn : g[k].owner = e},
                       mode |-> IF g[e].kind = "s" THEN "schema" ELSE "deref"]>>
  /\ steps' = steps + 1
  /\ UNCHANGED <<g, memo, cache, loads, cuts, kept, status>>

Finish ==
  /\ Running /\ stack = <<>> /\ todo = {}
  /\ status' = "ok"
  /\ UNCHANGED <<g, todo, stack, memo, cache, loads, cuts, kept, steps>>

IsRefTop == Running /\ stack # <<>> /\ g[Top.node].t = "ref"
TargetOfTop == g[Top.node].to

\* the $ref of the top frame designates nothing
Fail ==
  /\ IsRefTop /\ TargetOfTop = 0 /\ ~Cont
  /\ ~(Skip /\ Top.mode = "schema")
  /\ status' = "error"
  /\ steps' = steps + 1
  /\ UNCHANGED <<g, todo, stack, memo, cache, loads, cuts, kept>>

SkipBad ==
  /\ IsRefTop /\ TargetOfTop = 0 /\ Cont
  /\ ~(Skip /\ Top.mode = "schema")
  /\ kept' = kept \cup {Top.node}
  /\ Pop /\ steps' = steps + 1
  /\ UNCHANGED <<g, todo, memo, cache, loads, cuts, status>>

\* SkipSchemas: a schema $ref is rebased, not followed (expander.go:217-231)
KeepRef ==
  /\ IsRefTop /\ Skip /\ Top.mode = "schema"
  /\ kept' = kept \cup {Top.node}
  /\ Pop /\ steps' = steps + 1
  /\ UNCHANGED <<g, todo, memo, cache, loads, cuts, status>>

Cut ==
  /\ IsRefTop /\ TargetOfTop # 0
  /\ ~(Skip /\ Top.mode = "schema")
  /\ IsCirc(memo, Top.parents, TargetOfTop)
  /\ memo' = MemoAfter(memo, Top.parents, TargetOfTop)
  /\ cuts' = IF Top.mode = "schema" THEN cuts \cup {<<Top.node, TargetOfTop>>} ELSE cuts
  /\ Pop /\ steps' = steps + 1
  /\ UNCHANGED <<g, todo, cache, loads, kept, status>>

NeedsDoc(r) == g[r].doc
\* schemaLoader.load: only on a cache miss; the document is stored afterwards.
\* A reference into the document being processed may be served from the resolver root.
LoadDoc ==
  /\ IsRefTop /\ TargetOfTop # 0
  /\ ~(Skip /\ Top.mode = "schema")
  /\ ~IsCirc(memo, Top.parents, TargetOfTop)
  /\ NeedsDoc(TargetOfTop) \notin cache
  /\ cache' = cache \cup {NeedsDoc(TargetOfTop)}
  /\ loads' = Append(loads, NeedsDoc(TargetOfTop))
  /\ steps' = steps + 1
  /\ UNCHANGED <<g, todo, stack, memo, cuts, kept, status>>

Available(r) == NeedsDoc(r) \in cache \/ NeedsDoc(r) = g[Top.node].doc

\* expandSchemaRef: resolve, extend parentRefs, recurse into the target
Follow ==
  /\ IsRefTop /\ TargetOfTop # 0 /\ Top.mode = "schema" /\ ~Skip
  /\ ~IsCirc(memo, Top.parents, TargetOfTop)
  /\ Available(TargetOfTop)
  /\ ReplaceTop(Frame(TargetOfTop, Append(Top.parents, TargetOfTop), "schema"))
  /\ steps' = steps + 1
  /\ UNCHANGED <<g, todo, memo, cache, loads, cuts, kept, status>>

\* schemaLoader.deref: one hop of a parameter / response / path-item chain
DerefHop ==
  /\ IsRefTop /\ TargetOfTop # 0 /\ Top.mode = "deref"
  /\ ~IsCirc(memo, Top.parents, TargetOfTop)
  /\ Available(TargetOfTop)
  /\ ReplaceTop(Frame(TargetOfTop, Append(Top.parents, TargetOfTop), "deref"))
  /\ steps' = steps + 1
  /\ UNCHANGED <<g, todo, memo, cache, loads, cuts, kept, status>>

\* any unvisited child next (map order); the child starts with the parents of its owner,
\* except that the schema of a parameter / response and the members of a path item start
\* afresh (expandParameterOrResponse builds a new parentRefs)
VisitChild ==
  /\ Running /\ stack # <<>> /\ g[Top.node].t # "ref" /\ Top.kids # {}
  /\ \E k \in Top.kids :
       LET ps == IF g[Top.node].kind = "s" THEN Top.parents ELSE <<>>
           md == IF g[k].kind = "s" THEN "schema" ELSE "deref"
       IN  stack' = Append([stack EXCEPT ![Len(stack)].kids = @ \ {k}],
                           [node |-> k, parents |-> ps,
                            kids |-> {j \in 1..Nn : g[j].owner = k}, mode |-> md])
  /\ steps' = steps + 1
  /\ UNCHANGED <<g, todo, memo, cache, loads, cuts, kept, status>>

Return ==
  /\ Running /\ stack # <<>> /\ g[Top.node].t # "ref" /\ Top.kids = {}
  /\ Pop /\ steps' = steps + 1
  /\ UNCHANGED <<g, todo, memo, cache, loads, cuts, kept, status>>

Next == StartEntry \/ Finish \/ Fail \/ SkipBad \/ KeepRef \/ Cut \/ LoadDoc
        \/ Follow \/ DerefHop \/ VisitChild \/ Return

Spec == Init /\ [][Next]_vars /\ WF_vars(Next)

\* ------------------------------------------------------------ properties
NodeSuccs(m) == Succs(g, m)
ReachPlusM(m) == Reach(g, {}, NodeSuccs(m))
OnCycleM(m) == m \in ReachPlusM(m)
Live == Reach(g, {}, Roots(g))
AcyclicM == \A m \in Live : ~OnCycleM(m)

Done == status # "running"

\* C03: a $ref is left only where unfolding would never end
C03_OnlyCutPoints == \A c \in cuts : OnCycleM(c[2])
C03_AcyclicRefFree == (status = "ok" /\ AcyclicM /\ ~Skip) => cuts = {}
\* the memo only ever holds nodes on cycles (what makes the memo cut sound)
MemoSound == \A m \in memo : OnCycleM(m)

\* C04: bounded recursion, bounded work, termination
C04_Depth == Len(stack) <= 2 * Nn + 1
C04_Parents == stack # <<>> => Len(Top.parents) <= Nn
C04_Work  == steps <= 8 * Nn * Nn * (Nn + 1) + 8
C04_Terminates == <>Done

\* C08 at design level: strict mode fails iff it meets an unresolvable reference
C08_StrictNoSilent == (status = "ok" /\ ~Cont) => kept \subseteq {m \in 1..Nn : Skip /\ g[m].kind = "s"}
C08_NoSpurious == (status = "error") => (\E m \in Live : g[m].t = "ref" /\ g[m].to = 0)
C08_ContinueOk == Cont => status # "error"

\* C18: each document is requested at most once, only on a miss
C18_AtMostOnce == \A i, j \in 1..Len(loads) : loads[i] = loads[j] => i = j

\* C09 at design level: schema refs are never followed in skip mode
C09_NoSchemaFollow == Skip => \A i \in 1..Len(stack) :
                          stack[i].mode = "schema" => Len(stack[i].parents) = 0
=============================================================================
