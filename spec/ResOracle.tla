----------------------------- MODULE ResOracle -----------------------------
(***************************************************************************)
(* C05: resolving a reference returns exactly the designated sub-document. *)
(* The designated node is computed here - Urls!Resolve of the reference    *)
(* against the root location, then the document at that URL, then the node *)
(* at the (RFC 6901 / percent decoded) pointer - never by the library.     *)
(* The worker reports a digest of the returned value and, for every node   *)
(* of the input, a digest of its sub-document normalised through the       *)
(* requested kind; the predicate is equality with the designated node's.   *)
(***************************************************************************)
EXTENDS RefGraph, Json, SequencesExt

CONSTANTS ObsFile, VerdictFile
Observations == ndJsonDeserialize(ObsFile)

PF(applies, holds) == IF ~applies THEN "na" ELSE IF holds THEN "pass" ELSE "fail"

Verdict(o) ==
  LET items == Len(o.api) > 5 /\ SubSeq(o.api, 1, 6) = "Items:"   \* judged by the worker against the document itself
      \* "deadroot": the root is supplied through a location at which there is no document: nothing is designated
      t == IF o.api = "WithBase:deadroot" THEN 0 ELSE Designates(o, 1, o.ref, FALSE)
      kindok == t # 0 /\ o.nodes[t].kind = o.kind
  IN [ case     |-> o.case,
       t        |-> t,
       \* the generator's intention and the TLA+ designation must agree (else: model error)
       aimok    |-> items \/ ((o.target = 0) = (t = 0)),
       c05val   |-> PF(kindok /\ ~items, o.outcome = "ok" /\ o.res = o.nodes[t].full),
       c05err   |-> PF(t = 0 /\ ~items, o.outcome = "error"),
       c05items |-> PF(items, o.itemsok),
       c05root  |-> PF(TRUE, o.rootsame),
       c05total |-> PF(TRUE, o.outcome \in {"ok", "error"}) ]

ASSUME ndJsonSerialize(VerdictFile, [i \in 1..Len(Observations) |-> Verdict(Observations[i])])

VARIABLE x
Init == x = 0
Next == UNCHANGED x
=============================================================================
