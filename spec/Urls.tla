------------------------------- MODULE Urls -------------------------------
(***************************************************************************)
(* Abstract URLs and RFC 3986 reference resolution (section 5.2).          *)
(*                                                                         *)
(* A URL is a record                                                       *)
(*   [scheme, host : STRING, abs : BOOLEAN, segs : Seq(STRING),            *)
(*    query : STRING, hasfrag : BOOLEAN, ptr : Seq(STRING)]                *)
(* scheme = "" means "no scheme"; abs says whether the path starts with a  *)
(* slash; segs are the (percent-decoded) path segments; ptr is the         *)
(* fragment read as an RFC 6901 pointer (decoded reference tokens).        *)
(* This is the oracle for C12 and the way every $ref is interpreted in the *)
(* reference-graph properties (C02, C03, C05, C08, C09, C10).              *)
(***************************************************************************)
EXTENDS Naturals, Sequences

DotSegs == {".", ".."}

RECURSIVE RemoveDots(_, _)
RemoveDots(in, out) ==
  IF in = <<>> THEN out
  ELSE LET h == Head(in)
           t == Tail(in)
       IN IF h = "." THEN RemoveDots(t, out)
          ELSE IF h = ".."
               THEN RemoveDots(t, IF out = <<>> THEN out
                                  ELSE SubSeq(out, 1, Len(out) - 1))
               ELSE RemoveDots(t, Append(out, h))

\* Directory part of a path: everything but the last segment (5.2.3 merge).
DirOf(segs) == IF segs = <<>> THEN <<>> ELSE SubSeq(segs, 1, Len(segs) - 1)

NoFrag(u) == [u EXCEPT !.hasfrag = FALSE, !.ptr = <<>>]

\* RFC 3986 5.2.2, on the abstract representation.  The base is absolute.
Resolve(base, ref) ==
  IF ref.scheme # ""
  THEN [ref EXCEPT !.segs = RemoveDots(@, <<>>)]
  ELSE IF ref.host # ""
  THEN [ref EXCEPT !.scheme = base.scheme, !.segs = RemoveDots(@, <<>>)]
  ELSE IF ref.segs = <<>> /\ ~ref.abs
  THEN [base EXCEPT !.query = IF ref.query # "" THEN ref.query ELSE base.query,
                    !.hasfrag = ref.hasfrag, !.ptr = ref.ptr]
  ELSE IF ref.abs
  THEN [base EXCEPT !.segs = RemoveDots(ref.segs, <<>>), !.query = ref.query,
                    !.hasfrag = ref.hasfrag, !.ptr = ref.ptr]
  ELSE [base EXCEPT !.segs = RemoveDots(DirOf(base.segs) \o ref.segs, <<>>),
                    !.query = ref.query,
                    !.hasfrag = ref.hasfrag, !.ptr = ref.ptr]

\* Two URLs designate the same document.
SameDoc(u, v) == /\ u.scheme = v.scheme /\ u.host = v.host
                 /\ u.segs = v.segs /\ u.query = v.query

\* The library treats the query of a LOCAL FILE location as irrelevant (normalizeBase: "any query
\* component is irrelevant for a local file"): file:///d/x.json?rev=2 is the document file:///d/x.json.
NoFileQuery(u) == IF u.scheme = "file" THEN [u EXCEPT !.query = ""] ELSE u
SameDocLocal(u, v) == SameDoc(NoFileQuery(u), NoFileQuery(v))

IsFragOnly(u) == u.scheme = "" /\ u.host = "" /\ ~u.abs /\ u.segs = <<>> /\ u.query = ""
IsAbsoluteUrl(u) == u.scheme # "" /\ (u.abs \/ u.segs = <<>>)
HasDots(u) == \E i \in 1..Len(u.segs) : u.segs[i] \in DotSegs
IsRelPath(u) == u.scheme = "" /\ u.host = "" /\ ~u.abs

\* target lies in or below the directory of root
IsPrefixSeq(p, s) == Len(p) <= Len(s) /\ SubSeq(s, 1, Len(p)) = p
UnderDirOf(root, t) == /\ root.scheme = t.scheme /\ root.host = t.host
                       /\ IsPrefixSeq(DirOf(root.segs), t.segs)
                       /\ Len(t.segs) > Len(DirOf(root.segs))
=============================================================================
