------------------------------ MODULE Ordering ------------------------------
(***************************************************************************)
(* C06: the order in which schema properties are encoded.                  *)
(* Transcription of OrderSchemaItems.Less (properties.go) with             *)
(* Extensions.GetInt: an x-order that is a number (truncated) or a numeric *)
(* string counts, anything else counts as absent; items with an x-order    *)
(* come first, by x-order, then by name; the others by name.               *)
(* TLC checks that Less is a strict total order on items with distinct     *)
(* names (so sort.Sort has exactly one result whatever the input           *)
(* permutation, i.e. whatever the map iteration order), and exports every  *)
(* item set with its expected sequence.                                    *)
(***************************************************************************)
EXTENDS Integers, Sequences, FiniteSets, TLC, Json, SequencesExt

CONSTANTS MaxItems, OutFile

Names == {"a", "b", "c", "d"}
\* x-order classes: absent; the numbers -1, 0, 1 and 2 (-1 is what GetInt reports for "absent"); the strings "1" and "2"; 1.5 (truncated to 1);
\* a non-numeric string; a boolean
XOrders == {"absent", "m1", "n0", "n1", "n2", "s1", "s2", "f15", "zz", "true"}
Key(xo) == CASE xo \in {"n1", "s1", "f15"} -> 1 [] xo \in {"n2", "s2"} -> 2 [] xo = "n0" -> 0 [] OTHER -> 0 - 1
HasKey(xo) == xo \in {"m1", "n0", "n1", "n2", "s1", "s2", "f15"}

\* names are compared as strings; the four names are in alphabetical order
Rank(n) == CASE n = "a" -> 1 [] n = "b" -> 2 [] n = "c" -> 3 [] OTHER -> 4
NameLess(x, y) == Rank(x) < Rank(y)

Less(i, j) ==
  IF HasKey(i.xo)
  THEN IF HasKey(j.xo)
       THEN IF Key(i.xo) = Key(j.xo) THEN NameLess(i.name, j.name) ELSE Key(i.xo) < Key(j.xo)
       ELSE TRUE
  ELSE IF HasKey(j.xo) THEN FALSE
  ELSE NameLess(i.name, j.name)

Items == [name : Names, xo : XOrders]
\* item sets with distinct names: an assignment of x-order classes to 2..MaxItems names
NameSets == {N \in SUBSET Names : Cardinality(N) >= 2 /\ Cardinality(N) <= MaxItems}
ItemSets == UNION {{{[name |-> n, xo |-> f[n]] : n \in N} : f \in [N -> XOrders]} : N \in NameSets}

\* ---- the comparator is a strict total order on items with distinct names
Irreflexive == \A x \in Items : ~Less(x, x)
Total       == \A x, y \in Items : x.name # y.name => (Less(x, y) # Less(y, x))
Transitive  == \A x, y, z \in Items :
                 (x.name # y.name /\ y.name # z.name /\ x.name # z.name /\ Less(x, y) /\ Less(y, z)) => Less(x, z)

\* the sorted sequence of a set: repeatedly take the least element (unique, as Less is total)
RECURSIVE Sorted(_)
Sorted(S) == IF S = {} THEN <<>>
             ELSE LET m == CHOOSE x \in S : \A y \in S \ {x} : Less(x, y)
                  IN  <<m>> \o Sorted(S \ {m})
\* every set has a least element (consequence of the three laws, checked directly as well)
HasLeast == \A S \in ItemSets : \E x \in S : \A y \in S \ {x} : Less(x, y)

\* integer-valued x-orders must come out ordered by (x-order, name)
IntValued(xo) == xo \in {"m1", "n0", "n1", "n2"}
ASSUME /\ Irreflexive /\ Total /\ Transitive
       /\ HasLeast
       /\ PrintT(<<"NSETS", Cardinality(ItemSets)>>)
       /\ ndJsonSerialize(OutFile, SetToSeq({[items |-> SetToSeq(S), want |-> [i \in 1..Cardinality(S) |-> Sorted(S)[i].name]] : S \in ItemSets}))
VARIABLE x
Init == x = 0
Next == UNCHANGED x
=============================================================================
