---------------------------- MODULE ExpOracle ----------------------------
(***************************************************************************)
(* Property predicates of the expansion family (C02, C03, C04, C08, C09,   *)
(* C10, C18) evaluated by TLC on observations recorded from the real code. *)
(* One observation = one real call: projected input documents, projected   *)
(* output, loader log, outcome.  Nothing here trusts the library: refs are *)
(* resolved by Urls!Resolve, meaning is RefGraph!Bisimilar.                *)
(***************************************************************************)
EXTENDS Findings, ExpTrace, Json, SequencesExt

CONSTANTS ObsFile, VerdictFile,
          Preds        \* the predicates this run needs (the others are reported "na" without being evaluated)

Observations == ndJsonDeserialize(ObsFile)

InputNodes(o)  == {k \in NodeIds(o) : ~o.docs[o.nodes[k].doc].out}
OutputNodes(o) == {k \in NodeIds(o) : o.docs[o.nodes[k].doc].out}
EntryIn(o)  == {o.entries[i].a : i \in 1..Len(o.entries)}

\* nodes of the input reachable from the entries (the part of the world the call can see)
Live(o, tmIn) == ReachFrom(o, tmIn, {}, EntryIn(o))

DanglingRefs(o, tmIn, live) == {k \in live : o.nodes[k].isref /\ tmIn[k] = 0}
\* a parameter / response / path item whose reference chain never reaches an object
Unfounded(o, tmIn, live) == {k \in live :
                          /\ o.nodes[k].isref /\ o.nodes[k].kind \in {"p", "r", "i"}
                          /\ Deref(o, tmIn, k) = 0}
Cyclic(o, tmIn, live) == {k \in live : OnCycle(o, tmIn, k)}

\* what the call has to follow: in skip mode definitions are not visited and schema refs
\* are only rebased
Followed(o, tmIn) ==
  ReachFrom(o, tmIn, {}, {e \in EntryIn(o) : ~(o.opts.skip /\ o.nodes[e].kind = "s")})
MustFollowBad(o, tmIn) ==
  {k \in Followed(o, tmIn) : /\ o.nodes[k].isref /\ tmIn[k] = 0
                             /\ ~(o.opts.skip /\ o.nodes[k].kind = "s")}
\* entries whose value depends on an unresolvable parameter / response / path-item ref
DependsOnBadElement(o, tmIn, e) ==
  \E k \in ReachFrom(o, tmIn, {}, {e}) :
     o.nodes[k].isref /\ tmIn[k] = 0 /\ o.nodes[k].kind \in {"p", "r", "i"}

LoadFailed(o) == \E i \in 1..Len(o.loadok) : ~o.loadok[i]

\* ---------------------------------------------------------------- C02
C02Bad(o, tm) == {i \in 1..Len(o.entries) :
                     \/ o.entries[i].b = 0
                     \/ ~Bisimilar(o, tm, o.entries[i].a, o.entries[i].b)}

\* ---------------------------------------------------------------- C03
KeptRefs(o) == {k \in OutputNodes(o) : o.nodes[k].isref}
\* a kept ref must designate, from the root location, a node on a cycle of the input
OffCycle(o, tmIn) ==
  {k \in KeptRefs(o) :
      LET t == Designates(o, o.nodes[k].doc, o.nodes[k].ref, FALSE)
      IN  t = 0 \/ ~OnCycle(o, tmIn, t)}

RootUrl(o) == o.docs[1].url
FormOK(o, k) ==
  LET r == o.nodes[k].ref
      u == Resolve(RootUrl(o), r)
  IN  IF o.opts.abs
      THEN IsAbsoluteUrl(r) /\ ~HasDots(r)
      ELSE IF SameDocLocal(u, RootUrl(o)) THEN IsFragOnly(r)
      \* (a target whose query differs from the root's cannot be written relatively for this library: its
      \* relative references always inherit the query of their base - pinned by its tests; any form goes)
      ELSE IF NoFileQuery(u).query # NoFileQuery(RootUrl(o)).query THEN TRUE
      ELSE IF UnderDirOf(RootUrl(o), u) THEN IsRelPath(r)
      ELSE TRUE
BadForm(o) == {k \in KeptRefs(o) : ~FormOK(o, k)}

\* relative written form (what SkipSchemas must produce whatever AbsoluteCircularRef says)
FormOKRel(o, k) ==
  LET r == o.nodes[k].ref
      u == Resolve(RootUrl(o), r)
  IN  IF SameDocLocal(u, RootUrl(o)) THEN IsFragOnly(r)
      ELSE IF NoFileQuery(u).query # NoFileQuery(RootUrl(o)).query THEN TRUE
      ELSE IF UnderDirOf(RootUrl(o), u) THEN IsRelPath(r)
      ELSE TRUE

\* ---------------------------------------------------------------- C09
\* Skip-schemas mode: a is an input node, b the output node at the same place.  Parameters,
\* responses and path items are dereferenced; a schema $ref stays a $ref that designates,
\* read from the root location, the node it designated before; everything else is unchanged.
RECURSIVE Keeps(_, _, _, _, _)
Keeps(o, tmIn, a, b, fuel) ==
  IF fuel = 0 THEN TRUE
  ELSE LET a1 == IF o.nodes[a].kind \in {"p", "r", "i"} THEN Deref(o, tmIn, a) ELSE a
       IN  IF a1 = 0 THEN TRUE
           ELSE IF b = 0 THEN FALSE
           ELSE IF o.nodes[a1].isref
           THEN /\ o.nodes[a1].kind = "s"
                /\ o.nodes[b].isref
                /\ Designates(o, o.nodes[b].doc, o.nodes[b].ref, FALSE) = tmIn[a1]
           ELSE /\ ~o.nodes[b].isref
                /\ o.nodes[b].lab = o.nodes[a1].lab
                /\ PosSet(o, b) = PosSet(o, a1)
                /\ \A p \in PosSet(o, a1) : Keeps(o, tmIn, Child(o, a1, p), Child(o, b, p), fuel - 1)

C09Bad(o, tmIn) == {i \in 1..Len(o.entries) :
                      /\ o.nodes[o.entries[i].a].kind # "s"
                      /\ ~Keeps(o, tmIn, o.entries[i].a, o.entries[i].b, 30)}

\* ---------------------------------------------------------------- C18
LoadKey(u) == <<u.scheme, u.host, u.segs, u.query>>
\* a document the loader delivered is never requested again (a refused request may be repeated)
DupLoads(o) == {i \in 1..Len(o.loads) :
                  \E j \in 1..(i-1) : o.loadok[j] /\ LoadKey(o.loads[j]) = LoadKey(o.loads[i])}
FragLoads(o) == {i \in 1..Len(o.loads) : o.loads[i].hasfrag}
\* a document present in the supplied cache is never requested
CachedLoads(o) == {i \in 1..Len(o.loads) :
                     \E j \in 1..Len(o.cached) : LoadKey(o.cached[j]) = LoadKey(o.loads[i])}

\* ---------------------------------------------------------------- C04 work
RECURSIVE SumUnfold(_, _, _, _)
SumUnfold(o, tmIn, es, i) ==
  IF i > Len(es) THEN 0
  ELSE UnfoldSz(o, tmIn, es[i].a, {}, 40) + SumUnfold(o, tmIn, es, i + 1)

PF(applies, holds) == IF ~applies THEN "na" ELSE IF holds THEN "pass" ELSE "fail"
W(p, v) == IF p \in Preds THEN v ELSE "na"

Verdict(o) ==
  LET tm   == TargetMap(o)
      tmIn == InputTargetMap(o)
      ok   == o.outcome = "ok"
      live == Live(o, tmIn)
      dang == DanglingRefs(o, tmIn, live)
      unf  == Unfounded(o, tmIn, live)
      wf   == dang = {} /\ unf = {} /\ ~LoadFailed(o)
      cyc  == Cyclic(o, tmIn, live)
      full == ~o.opts.skip
      c02bad == IF ok /\ wf THEN C02Bad(o, tm) ELSE {}
      offc   == IF ok /\ wf /\ full THEN OffCycle(o, tmIn) ELSE {}
      badf   == IF ok /\ wf /\ full THEN BadForm(o) ELSE {}
      term   == o.outcome \in {"ok", "error"}
      mfb    == MustFollowBad(o, tmIn)
      contbad == IF ok /\ o.opts.cont /\ unf = {}
                 THEN {i \in 1..Len(o.entries) :
                         /\ ~DependsOnBadElement(o, tmIn, o.entries[i].a)
                         /\ (o.entries[i].b = 0 \/ ~Bisimilar(o, tm, o.entries[i].a, o.entries[i].b))}
                 ELSE {}
      contcut == IF ok /\ o.opts.cont /\ full
                 THEN {k \in KeptRefs(o) :
                         LET t == Designates(o, o.nodes[k].doc, o.nodes[k].ref, FALSE)
                         IN  t # 0 /\ ~OnCycle(o, tmIn, t)}
                 ELSE {}
      tr     == Validate(o.events)
      unfold == SumUnfold(o, tmIn, o.entries, 1)
  IN [ case    |-> o.case,
       outcome |-> o.outcome,
       wf      |-> wf,
       cyclic  |-> cyc # {},
       nkept   |-> Cardinality(KeptRefs(o)),
       c02     |-> W("c02", PF(ok /\ wf, c02bad = {})),
       c03cut  |-> W("c03cut", PF(ok /\ wf /\ full, offc = {})),
       c03free |-> W("c03free", PF(ok /\ wf /\ full /\ cyc = {}, KeptRefs(o) = {})),
       c03det  |-> W("c03det", PF(ok /\ wf /\ full /\ cyc = {}, o.det)),
       c03form |-> W("c03form", PF(ok /\ wf /\ full, badf = {})),
       c04     |-> W("c04", PF(TRUE, term)),
       c04work |-> W("c04work", PF(term /\ Len(o.nodes) <= 40, tr.ncirc <= 4 * unfold + 16)),
       conf    |-> W("conf", PF(term, tr.ok)),
       confat  |-> tr.at,
       confwhy |-> tr.why,
       c18step |-> W("c18step", PF(term, ~tr.refetch)),
       ncirc   |-> tr.ncirc,
       unfold  |-> unfold,
       c08noerr|-> W("c08noerr", PF(term /\ mfb = {}, ok)),
       c08err  |-> W("c08err", PF(term /\ ~o.opts.cont /\ mfb # {}, o.outcome = "error")),
       c08contok |-> W("c08contok", PF(term /\ o.opts.cont, ok)),
       c08contbisim |-> W("c08contbisim", PF(ok /\ o.opts.cont /\ unf = {}, contbad = {})),
       c08contcut |-> W("c08contcut", PF(ok /\ o.opts.cont /\ full, contcut = {})),
       nbad    |-> Cardinality(mfb),
       c09keep |-> W("c09keep", PF(ok /\ wf /\ o.opts.skip, C09Bad(o, tmIn) = {})),
       c09defs |-> W("c09defs", PF(ok /\ o.opts.skip, o.defsame)),
       \* (the definitions section is left untouched, spelling included: only the other refs are judged)
       c09form |-> W("c09form", PF(ok /\ wf /\ o.opts.skip,
                      {k \in KeptRefs(o) : o.nodes[k].path[1] # "definitions" /\ ~FormOKRel(o, k)} = {})),
       c09then |-> W("c09then", PF(ok /\ wf /\ o.entry = "SkipThenFull" /\ cyc = {}, o.samefull)),
       c10root |-> W("c10root", PF(term, o.rootsame)),
       c10opts |-> W("c10opts", PF(term, o.optssame)),
       c18never|-> W("c18never", PF(term, CachedLoads(o) = {})),
       c18once |-> W("c18once", PF(o.outcome \in {"ok", "error"}, DupLoads(o) = {})),
       c18key  |-> W("c18key", PF(o.outcome \in {"ok", "error"}, FragLoads(o) = {})),
       kf      |-> SetToSeq((IF KF_RebasePrefix(o, tmIn, cyc, live) THEN {"KF-REBASE-PREFIX"} ELSE {})
                            \cup (IF ChainMultiHop(o, tmIn, live) THEN {"KF-CHAIN-MULTIHOP"} ELSE {})
                            \cup (IF IdReldirOnCycle(o) THEN {"KF-ID-RELDIR-CYCLE"} ELSE {})),
       bad02   |-> SetToSeq(c02bad),
       bad03   |-> SetToSeq(offc \cup badf) ]

Verdicts == [i \in 1..Len(Observations) |-> Verdict(Observations[i])]

ASSUME ndJsonSerialize(VerdictFile, Verdicts)

VARIABLE x
Init == x = 0
Next == UNCHANGED x
=============================================================================
