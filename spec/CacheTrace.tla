----------------------------- MODULE CacheTrace -----------------------------
(***************************************************************************)
(* C17: validation of linearisation traces recorded from real goroutines.  *)
(* The hooks sit inside the critical sections of cache.go (after the lock  *)
(* is taken, before it is released) and stamp every event with one global  *)
(* atomic sequence number; the harness adds op.start / op.end events       *)
(* around the real calls (with the value written / returned).  The trace,  *)
(* ordered by stamp, must be a behaviour of the reader/writer protocol of  *)
(* RWLock.tla (the same predicates Cache.tla is checked with):             *)
(*   set.in    only when nobody is inside that cache        (NoRace)       *)
(*   get.in / clone.in  only when no writer is inside       (NoRace)       *)
(*   init.in   at most once per process                     (Once)         *)
(*   set.in on the package cache never                      (immutable)    *)
(*   op.end(get, v): v is the value of the latest completed Set on that    *)
(*             key of that cache before the read section  (Linearizable)   *)
(***************************************************************************)
EXTENDS RWLock, Sequences, TLC, Json, SequencesExt

CONSTANTS ObsFile, VerdictFile
Observations == ndJsonDeserialize(ObsFile)

\* an event: [g, pt, cache, key, val, pkg]; caches and goroutines are small integers
LockOf(st, c) == IF c \in DOMAIN st.lk THEN st.lk[c] ELSE FreeLock
SetLock(st, c, l) == [st EXCEPT !.lk = [x \in (DOMAIN st.lk) \cup {c} |-> IF x = c THEN l ELSE st.lk[x]]]
Cell(c, k) == <<c, k>>
LastW(st, c, k) == IF Cell(c, k) \in DOMAIN st.lastw THEN st.lastw[Cell(c, k)] ELSE 0
PutF(f, x, v) == [y \in (DOMAIN f) \cup {x} |-> IF y = x THEN v ELSE f[y]]

St0 == [lk |-> <<>>, lastw |-> <<>>, pend |-> <<>>, expect |-> <<>>, inits |-> 0, ok |-> TRUE, at |-> 0, why |-> ""]
Bad(st, i, why) == IF st.ok THEN [st EXCEPT !.ok = FALSE, !.at = i, !.why = why] ELSE st

Step(st, e, i) ==
  LET l == LockOf(st, e.cache) IN
  IF e.pt = "op.start" THEN (IF e.key = "set" THEN [st EXCEPT !.pend = PutF(@, e.g, e.val)] ELSE st)
  ELSE IF e.pt = "set.in" THEN
       LET st1 == IF CanEnterWrite(l) THEN st ELSE Bad(st, i, "a writer entered a cache while somebody was inside (NoRace)")
           st2 == IF e.pkg THEN Bad(st1, i, "write to the package-level cache") ELSE st1
           v   == IF e.g \in DOMAIN st.pend THEN st.pend[e.g] ELSE 0 - 1
       IN  [SetLock(st2, e.cache, EnterWrite(l, e.g)) EXCEPT !.lastw = PutF(@, Cell(e.cache, e.key), v)]
  ELSE IF e.pt = "set.out" THEN SetLock(st, e.cache, LeaveWrite(l, e.g))
  ELSE IF e.pt \in {"get.in", "clone.in"} THEN
       LET st1 == IF CanEnterRead(l) THEN st ELSE Bad(st, i, "a reader entered a cache while a writer was inside (NoRace)")
           st2 == SetLock(st1, e.cache, EnterRead(l, e.g))
       IN  IF e.pt = "get.in" THEN [st2 EXCEPT !.expect = PutF(@, e.g, LastW(st, e.cache, e.key))] ELSE st2
  ELSE IF e.pt \in {"get.out", "clone.out"} THEN SetLock(st, e.cache, LeaveRead(l, e.g))
  ELSE IF e.pt = "init.in" THEN
       \* e.val = how many times the initialiser has run in this process so far
       LET st1 == [st EXCEPT !.inits = e.val]
       IN  IF e.val > 1 THEN Bad(st1, i, "the package cache was initialised more than once") ELSE st1
  ELSE IF e.pt = "op.end" /\ e.key = "get" THEN
       IF e.g \in DOMAIN st.expect /\ st.expect[e.g] # e.val
       THEN Bad(st, i, "a Get did not return the latest value written in lock order (Linearizable)") ELSE st
  ELSE st

RECURSIVE Fold(_, _, _)
Fold(st, evs, i) == IF i > Len(evs) THEN st ELSE Fold(Step(st, evs[i], i), evs, i + 1)

Verdict(o) ==
  LET st == Fold(St0, o.events, 1)
  IN  [id |-> o.id, c17lock |-> IF st.ok THEN "pass" ELSE "fail", at |-> st.at, why |-> st.why, inits |-> st.inits]
ASSUME ndJsonSerialize(VerdictFile, [i \in 1..Len(Observations) |-> Verdict(Observations[i])])
VARIABLE x
Init == x = 0
Next == UNCHANGED x
=============================================================================
