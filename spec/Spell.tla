------------------------------- MODULE Spell -------------------------------
(***************************************************************************)
(* C11: the root location may be spelled in any equivalent way.            *)
(* A transition system over spellings of one canonical location: every     *)
(* action rewrites the spelling without changing what it denotes.          *)
(* Model level: CanonBase maps every reachable spelling to the canonical   *)
(* URL and is idempotent.  The reachable spellings are exported, rendered  *)
(* by the Go worker and given to the real package as RelativeBase; the     *)
(* judge part compares the loader requests with the canonical URLs.        *)
(*                                                                         *)
(* A spelling: [form, upper, segs, frag, query]                            *)
(*   form  "url3" file:///p  "url1" file:/p  "path" /p  "rel" p (against   *)
(*         the working directory)  "http" / "https"  http(s)://h1/p        *)
(*   segs  path segments, possibly ".", "..", "" (doubled slash), "zz"     *)
(***************************************************************************)
EXTENDS Urls, FiniteSets, TLC, Json, SequencesExt

CONSTANTS MaxRewrites, Site,     \* Site: "file" | "http" | "https"
          Depth,                 \* directory depth of the root below the working directory (0..2)
          Mode, InFile, OutFile

\* the working directory is <TMP>/w/r ; TMP stands for the (multi-segment) scratch prefix
Cwd == <<"TMP", "w", "r">>
Below == CASE Depth = 0 -> <<>> [] Depth = 1 -> <<"d1">> [] OTHER -> <<"d1", "d2">>
CanonSegs == IF Site = "file" THEN Cwd \o Below \o <<"root">> ELSE <<"x">> \o Below \o <<"root">>
CanonUrl == [scheme |-> Site, host |-> IF Site = "file" THEN "" ELSE "h1", abs |-> TRUE,
             segs |-> CanonSegs, query |-> "", hasfrag |-> FALSE, ptr |-> <<>>]

\* raw: a URL spelling written with its blanks / non-ASCII letters as they are instead of percent-escaped
Sp(form, upper, segs, frag, query) ==
  [form |-> form, upper |-> upper, segs |-> segs, frag |-> frag, query |-> query, raw |-> FALSE]

Initial == Sp(IF Site = "file" THEN "url3" ELSE Site, FALSE, CanonSegs, FALSE, FALSE)

InsAt(s, i, xs) == SubSeq(s, 1, i - 1) \o xs \o SubSeq(s, i, Len(s))

\* ---- the rewrite actions (each keeps the denoted location)
InsertDot(sp)    == {[sp EXCEPT !.segs = InsAt(@, i, <<".">>)] : i \in 1..Len(sp.segs)}
InsertDetour(sp) == {[sp EXCEPT !.segs = InsAt(@, i, <<"zz", "..">>)] : i \in 1..Len(sp.segs)}
\* a doubled slash, but not in front of the first segment ("//x" would be an authority)
DoubleSlash(sp)  == {[sp EXCEPT !.segs = InsAt(@, i, <<"">>)] : i \in 2..Len(sp.segs)}
FileForms == {"url3", "url1", "path"}
SwitchForm(sp)   == IF sp.form \in FileForms /\ ~sp.upper
                    THEN {[sp EXCEPT !.form = f] : f \in FileForms \ {sp.form}} ELSE {}
\* relative spelling against the working directory: only while the path still starts with it
RelativeToCwd(sp) == IF /\ sp.form = "path" /\ Len(sp.segs) > Len(Cwd) /\ SubSeq(sp.segs, 1, Len(Cwd)) = Cwd
                        /\ sp.segs[Len(Cwd) + 1] # ""      \* "/d1/root" would be an absolute path
                     THEN {[sp EXCEPT !.form = "rel", !.segs = SubSeq(@, Len(Cwd) + 1, Len(@))]} ELSE {}
UpperScheme(sp)  == IF sp.form \in {"url3", "url1", "http", "https"} /\ ~sp.upper
                    THEN {[sp EXCEPT !.upper = TRUE]} ELSE {}
AppendFragment(sp) == IF ~sp.frag THEN {[sp EXCEPT !.frag = TRUE]} ELSE {}
AppendQuery(sp)  == IF ~sp.query /\ sp.form \in (FileForms \cup {"rel"}) THEN {[sp EXCEPT !.query = TRUE]} ELSE {}
Unescape(sp)     == IF ~sp.raw /\ sp.form \in {"url3", "url1", "http", "https"} THEN {[sp EXCEPT !.raw = TRUE]} ELSE {}

Succs(sp) == InsertDot(sp) \cup InsertDetour(sp) \cup DoubleSlash(sp) \cup SwitchForm(sp)
             \cup RelativeToCwd(sp) \cup UpperScheme(sp) \cup AppendFragment(sp) \cup AppendQuery(sp) \cup Unescape(sp)

\* ---- the canonicalisation C11 speaks of
NonEmpty(segs) == SelectSeq(segs, LAMBDA s : s # "")
CanonBase(sp) ==
  LET absSegs == IF sp.form = "rel" THEN Cwd \o sp.segs ELSE sp.segs
      isFile  == sp.form \in (FileForms \cup {"rel"})
  IN  [scheme |-> IF isFile THEN "file" ELSE sp.form,
       host |-> IF isFile THEN "" ELSE "h1", abs |-> TRUE,
       segs |-> RemoveDots(NonEmpty(absSegs), <<>>), query |-> "", hasfrag |-> FALSE, ptr |-> <<>>]

VARIABLES sp, n
vars == <<sp, n>>
Init == sp = Initial /\ n = 0
Rewrite == n < MaxRewrites /\ sp' \in Succs(sp) /\ n' = n + 1
Next == Rewrite
Spec == Init /\ [][Next]_vars

C11_Canon == CanonBase(sp) = CanonUrl
\* normalising an already canonical location changes nothing
C11_Idempotent == CanonBase(Sp(IF Site = "file" THEN "url3" ELSE Site, FALSE, CanonBase(sp).segs, FALSE, FALSE)) = CanonBase(sp)

\* ---- export of every spelling reachable by <= MaxRewrites actions
RECURSIVE Closure(_, _, _)
Closure(seen, fr, k) == IF k = 0 \/ fr = {} THEN seen \cup fr
                        ELSE Closure(seen \cup fr, (UNION {Succs(s) : s \in fr}) \ (seen \cup fr), k - 1)
Spellings == Closure({}, {Initial}, MaxRewrites)

\* documents the fixture refers to, relative to the root; the root itself is requested as well:
\* two of the other documents' references lead back to it (by name and through ".."), and the
\* entry points that take the location alone start by fetching it
Expected == { CanonUrl,
              [CanonUrl EXCEPT !.segs = SubSeq(@, 1, Len(@) - 1) \o <<"b1">>],
              [CanonUrl EXCEPT !.segs = SubSeq(@, 1, Len(@) - 1) \o <<"sub", "c1">>] }

\* ---- judging observations [id, loads, sameout, outcome]
Observations == IF Mode = "judge" THEN ndJsonDeserialize(InFile) ELSE <<>>
Key(u) == <<u.scheme, u.host, u.abs, u.segs, u.query, u.hasfrag>>
Verdict(o) ==
  [ id |-> o.id,
    \* (the entry "...:id" expands a self-contained root schema with an id: nothing is to be fetched)
    c11canon |-> IF o.outcome = "ok" /\ {Key(o.loads[i]) : i \in 1..Len(o.loads)} =
                                         (IF o.api = "ExpandSchemaWithBasePath:id" THEN {} ELSE {Key(e) : e \in Expected})
                 THEN "pass" ELSE "fail",
    c11out   |-> IF o.outcome = "ok" /\ o.sameout THEN "pass" ELSE "fail" ]

ASSUME Mode = "gen" => /\ PrintT(<<"NSPELLINGS", Cardinality(Spellings)>>)
                       /\ ndJsonSerialize(OutFile, SetToSeq(Spellings))
ASSUME Mode = "judge" => ndJsonSerialize(OutFile, [i \in 1..Len(Observations) |-> Verdict(Observations[i])])
=============================================================================
