----------------------------- MODULE ExpCases -----------------------------
(***************************************************************************)
(* Enumerator of abstract reference graphs: the initial states of the      *)
(* expander model (Expander.tla) and the inputs replayed into the real     *)
(* code.  A graph over nodes 1..N is a sequence of records                 *)
(*   [t, kind, owner, doc, to]                                             *)
(*   t     "leaf" | "ref" | "st"   (st = structure with owned children)    *)
(*   kind  "s" schema | "p" parameter | "r" response | "i" path item       *)
(*   owner 0 for a top-level element (definitions/parameters/responses/    *)
(*         paths entry of its document), else the owning st node (< self,  *)
(*         which makes every document a forest: cycles only via $ref)      *)
(*   doc   0 = root document, 1.. = other documents                        *)
(*   to    target node of a ref (0 = dangling, only when Dangling)         *)
(***************************************************************************)
EXTENDS ExpGraph

CONSTANTS N,         \* number of nodes
          D,         \* number of documents
          Kinds,     \* subset of {"s","p","r","i"} allowed for top-level nodes
          Dangling,  \* BOOLEAN: refs to nothing allowed
          WFOnly     \* BOOLEAN: only graphs whose parameter/response/path-item chains end

Ts == {"leaf", "ref", "st"}

Rec(t, k, o, d) == [t |-> t, kind |-> k, owner |-> o, doc |-> d, to |-> 0]

KidCount(s, m) == Cardinality({i \in 1..Len(s) : s[i].owner = m})
MaxKids(k)  == IF k \in {"s", "i"} THEN 2 ELSE 1
KidKinds(k) == IF k = "i" THEN {"p", "r"} ELSE {"s"}

Ext(s) ==
  LET n == Len(s) + 1
      open == {m \in 1..(n-1) : s[m].t = "st" /\ KidCount(s, m) < MaxKids(s[m].kind)}
  IN  {Append(s, Rec(t, k, 0, d)) : t \in Ts, k \in Kinds, d \in 0..(D-1)}
      \cup UNION {{Append(s, Rec(t, k, m, s[m].doc)) : t \in Ts, k \in KidKinds(s[m].kind)}
                   : m \in open}

RECURSIVE Build(_, _)
Build(S, n) == IF n = 0 THEN S ELSE Build(UNION {Ext(s) : s \in S}, n - 1)

Shaped == {s \in Build({<<>>}, N) :
             /\ \A m \in 1..N : s[m].t = "st" => KidCount(s, m) >= 1
             /\ \E m \in 1..N : s[m].owner = 0 /\ s[m].doc = 0}

RefNodes(s) == {m \in 1..N : s[m].t = "ref"}
Compat(s, m) == {k \in 1..N : s[k].kind = s[m].kind}
              \cup (IF Dangling THEN {0} ELSE {})

\* all assignments of targets to the ref nodes of a shape
Wirings(s) ==
  LET R == RefNodes(s)
  IN  {[m \in 1..N |-> IF m \in R THEN [s[m] EXCEPT !.to = f[m]] ELSE s[m]]
         : f \in [R -> 0..N]}

Wired(s) == {w \in Wirings(s) : \A m \in RefNodes(s) : w[m].to \in Compat(s, m)}

AllReachable(w) == Reach(w, {}, Roots(w)) = 1..N
\* every document index below the highest one in use is used (no gaps)
DocsDense(w) == \A d \in 0..(D-1) :
                  (\E m \in 1..N : w[m].doc = d) =>
                     \A e \in 0..d : \E m \in 1..N : w[m].doc = e

EnumCases == UNION {{w \in Wired(s) : /\ AllReachable(w) /\ DocsDense(w)
                                      /\ RefNodes(w) # {}
                                      /\ (WFOnly => WellFounded(w))} : s \in Shaped}
=============================================================================
